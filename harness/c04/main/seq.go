package main

// Sequences: two or three frames with DIFFERENT headers (flags: tracing / warning / custom
// payload / none; opcodes: RESULT, ERROR, SUPPORTED, EVENT) received back to back on one live
// connection, where what an earlier frame produced is looked at only after the later frame(s)
// have arrived. A response stays what its own frame says, whatever the connection receives next.
//
// Two ways of being late (seqModes):
//
//	"kept":      the requests are made one after the other; every Iter (or SUPPORTED view) is kept
//	             and examined only when the whole sequence has been received;
//	"pipelined": all requests are in flight together; the node sends the frames in sequence order
//	             and every requester is held - in StreamObserverContext.StreamFinished, the public
//	             hook Conn.exec runs in the requester after it took its response off the receive
//	             loop and before the frame is parsed - until the receive loop has reported the
//	             header of the last frame of the sequence (FrameHeaderObserver, the public hook
//	             Conn.recv calls after reading a header). So every response is parsed, and then
//	             examined, after all later frames arrived. No timing is involved: the two hooks
//	             order the steps.

import (
	"bytes"
	"context"
	"fmt"
	"net"
	"strings"
	"sync"
	"time"

	"github.com/gocql/gocql"
	"verif/engine/refcql/frame"
	"verif/engine/report"
)

var seqModes = []string{"kept", "pipelined"}

const (
	skRows = iota
	skError
	skVoid
	skOptions
	skEvent
)

// seqItem is one letter of the alphabet: a frame the node sends.
type seqItem struct {
	name   string
	kind   int
	e      *frame.Entry // rows / error / void: the response (with its envelope)
	noSkip bool         // query made with NoSkipMetadata()
	stmt   string
	id     []byte
	events []*frame.Response // skEvent: the event contents, rotating with the case number
}

type seqStmt struct {
	e  *frame.Entry
	id []byte
}

// seqOut is one frame of a batch: a pushed EVENT, or the answer to the request of an item.
type seqOut struct {
	event *frame.Response
	key   string // "options", or the prepared id
}

// seqBatch: the node collects expect requests, then sends outs in order.
type seqBatch struct {
	expect int
	outs   []seqOut
}

type seqPending struct {
	h   frame.Header
	req *frame.Request
	key string
}

// scripted: is this request answered by the active batch? (node side, serve loop)
func (n *lnode) scripted(h frame.Header, req *frame.Request) bool {
	n.mu.Lock()
	defer n.mu.Unlock()
	if n.batch == nil {
		return false
	}
	var key string
	switch m := req.Msg.(type) {
	case *frame.Options:
		if !req.Tracing {
			return false // the connection's heartbeat: answered at once, not part of the sequence
		}
		key = "options"
	case *frame.Execute:
		if n.byID[string(m.ID)] == nil {
			return false
		}
		key = string(m.ID)
	default:
		return false
	}
	n.pending = append(n.pending, seqPending{h, req, key})
	return true
}

// flushBatch sends the frames of the batch once all its requests are there.
func (n *lnode) flushBatch() bool {
	n.mu.Lock()
	b := n.batch
	if b == nil || len(n.pending) < b.expect {
		n.mu.Unlock()
		return true
	}
	pending := n.pending
	n.batch, n.pending = nil, nil
	comp := n.comp
	n.mu.Unlock()
	used := make([]bool, len(pending))
	var frames []*frame.Response
	var heads []seqHead
	for _, o := range b.outs {
		if o.event != nil {
			frames = append(frames, o.event)
			heads = append(heads, seqHead{-1, frame.OpEvent})
			continue
		}
		found := false
		for i, p := range pending {
			if used[i] || p.key != o.key {
				continue
			}
			used[i], found = true, true
			msg := n.answer(p.req)
			var resp *frame.Response
			if r, ok := msg.(*frame.Response); ok {
				cp := *r
				cp.Stream = p.h.Stream
				resp = &cp
			} else {
				resp = &frame.Response{Version: n.version, Stream: p.h.Stream, Msg: msg}
			}
			op, _ := frame.Opcode(resp.Msg)
			frames = append(frames, resp)
			heads = append(heads, seqHead{p.h.Stream, op})
			break
		}
		if !found {
			n.mu.Lock()
			var have []string
			for _, p := range pending {
				have = append(have, fmt.Sprintf("%x", p.key))
			}
			n.malformd = append(n.malformd, fmt.Sprintf("sequence script: no request for %x (expect %d, outs %d, pending %v)", o.key, b.expect, len(b.outs), have))
			n.mu.Unlock()
		}
	}
	// tell the client-side observer which headers make up the batch, then send it back to back
	if n.onFlush != nil {
		n.onFlush(heads)
	}
	for _, f := range frames {
		if !n.send(f, comp) {
			return false
		}
	}
	return true
}

// seqHead identifies a frame of a batch on the wire.
type seqHead struct {
	stream int
	op     byte
}

func (n *lnode) setBatch(b *seqBatch) {
	n.mu.Lock()
	n.batch, n.pending = b, nil
	n.mu.Unlock()
}

// ---------------------------------------------------------------------------
// The alphabet.

var seqTrace = [16]byte{0x11, 0x22, 0x33, 0x44, 0x55, 0x66, 0x77, 0x88, 0x99, 0xaa, 0xbb, 0xcc, 0xdd, 0xee, 0xff, 0x01}

func seqRows(v int, types []*frame.Type, nrows int, more bool, seed int) frame.ResultRows {
	var paging []byte
	if more && v >= 2 {
		paging = []byte{0x01, byte(seed)}
	} else {
		more = false
	}
	rows := make([][][]byte, nrows)
	for r := range rows {
		rows[r] = make([][]byte, len(types))
		for c, t := range types {
			rows[r][c] = frame.TypedCell(v, t, []int{frame.CellNormal, frame.CellNull, frame.CellNormal, frame.CellEmpty}[(r*len(types)+c+seed)%4], seed+r*5+c)
		}
	}
	m := bulkMeta(types, false, more, false, paging)
	for i := range m.Columns {
		m.Columns[i].Keyspace, m.Columns[i].Table, m.Columns[i].Name = fmt.Sprintf("seq_ks%d", seed), "seq_table", fmt.Sprintf("s%d_%d", seed, i)
	}
	return frame.ResultRows{Meta: m, Rows: rows}
}

// seqAlphabet: the frames a sequence is made of. Protocol v1-v3 know the tracing flag only;
// v4 and v5 add warnings and custom payload. Every rows item has its own column set, so that
// a response decoded with the wrong header never passes for the right one.
func seqAlphabet(v int) []*seqItem {
	tInt, tText, tBlob := frame.Leaf(frame.TInt), frame.Leaf(frame.TVarchar), frame.Leaf(frame.TBlob)
	resp := func(msg interface{}) *frame.Response { return &frame.Response{Version: v, Stream: 1, Msg: msg} }
	var items []*seqItem
	add := func(name string, kind int, r *frame.Response, noSkip bool) {
		it := &seqItem{name: name, kind: kind, noSkip: noSkip}
		if r != nil {
			it.e = &frame.Entry{Class: "seq/" + name, Resp: r, Typed: true}
		}
		items = append(items, it)
	}
	add("rows", skRows, resp(seqRows(v, []*frame.Type{tInt, tText, tBlob}, 2, false, 1)), false)
	traced := resp(seqRows(v, []*frame.Type{tText, tInt}, 1, true, 2))
	traced.TraceID = &seqTrace
	add("rows+trace", skRows, traced, true)
	unav := frame.Error{Code: frame.ErrUnavailable, Message: "not enough replicas ✓", Consistency: 0x0006, Required: 3, Alive: 1}
	add("error", skError, resp(unav), false)
	add("void", skVoid, resp(frame.ResultVoid{}), false)
	if v >= 4 {
		w1 := resp(seqRows(v, []*frame.Type{tBlob}, 3, false, 3))
		w1.Warnings = []string{"warning of the third rows item"}
		add("rows+warn", skRows, w1, false)
		all := resp(seqRows(v, []*frame.Type{tInt, tInt}, 2, true, 4))
		all.TraceID = &seqTrace
		all.Warnings = []string{"first warning", "second warning ✓ with more text"}
		all.Payload = []frame.KB{{Key: "k", Value: []byte{1, 2, 3}}}
		add("rows+trace+warn2+payload", skRows, all, false)
		pl := resp(seqRows(v, []*frame.Type{tText}, 2, false, 5))
		pl.Payload = []frame.KB{{Key: "k1", Value: nil}, {Key: "another-key", Value: []byte{}}}
		add("rows+payload", skRows, pl, true)
		ew := resp(frame.Error{Code: frame.ErrReadTimeout, Message: "read timed out", Consistency: 0x0004, Received: 1, BlockFor: 2, DataPresent: 1})
		ew.Warnings = []string{"warning of the error"}
		add("error+warn", skError, ew, false)
		vw := resp(frame.ResultVoid{})
		vw.Warnings = []string{"warning of the void result"}
		vw.Payload = []frame.KB{{Key: "void-key", Value: []byte{9}}}
		add("void+warn+payload", skVoid, vw, false)
	}
	add("supported", skOptions, nil, false)
	ev := &seqItem{name: "event", kind: skEvent}
	evResp := func(msg interface{}) *frame.Response { return &frame.Response{Version: v, Stream: -1, Msg: msg} }
	ev.events = []*frame.Response{
		evResp(frame.EventStatusChange{Change: "UP", Addr: []byte{10, 0, 0, 9}, Port: 9042}),
		evResp(frame.EventSchemaChange{SchemaChange: frame.SchemaChange{Change: "UPDATED", Target: "TABLE", Keyspace: "ks1", Name: "tbl"}}),
		evResp(frame.EventTopologyChange{Change: "NEW_NODE", Addr: []byte{0x20, 0x01, 0x0d, 0xb8, 0, 0, 0, 0, 0, 0, 0, 0, 0, 0, 0, 2}, Port: 65535}),
		evResp(frame.EventSchemaChange{SchemaChange: frame.SchemaChange{Change: "CREATED", Target: "KEYSPACE", Keyspace: "new_ks"}}),
	}
	items = append(items, ev)
	for i, it := range items {
		if it.e != nil {
			it.stmt = fmt.Sprintf("SELECT * FROM seq.t /* item %d %s */", i, it.name)
			it.id = []byte{0x5e, byte(v), byte(i)}
		}
	}
	return items
}

// ---------------------------------------------------------------------------
// Client side hooks.

type seqWaitKey struct{}

// seqObs counts the frame headers the receive loop has read (FrameHeaderObserver) and holds
// requesters in StreamFinished until a given count is reached (StreamObserver).
type seqObs struct {
	mu       sync.Mutex
	expected []seqHead // the frames of the batch the node is about to send (nil: nothing announced)
	matched  int       // how many of them the receive loop has reported, in order
	changed  chan struct{}
	abort    chan struct{}
}

func newSeqObs() *seqObs {
	return &seqObs{changed: make(chan struct{}), abort: make(chan struct{})}
}

// ObserveFrameHeader: frames that are not part of the announced batch (the answer to a heartbeat
// OPTIONS, written before the batch) are ignored.
func (o *seqObs) ObserveFrameHeader(ctx context.Context, h gocql.ObservedFrameHeader) {
	o.mu.Lock()
	if o.matched < len(o.expected) && o.expected[o.matched] == (seqHead{int(h.Stream), byte(h.Opcode)}) {
		o.matched++
		close(o.changed)
		o.changed = make(chan struct{})
	}
	o.mu.Unlock()
}

// announce is called by the node just before it sends a batch.
func (o *seqObs) announce(heads []seqHead) {
	o.mu.Lock()
	o.expected, o.matched = heads, 0
	o.mu.Unlock()
}

func (o *seqObs) reset() {
	o.mu.Lock()
	o.expected, o.matched = nil, 0
	o.abort = make(chan struct{})
	o.mu.Unlock()
}

func (o *seqObs) abortWaits() {
	o.mu.Lock()
	select {
	case <-o.abort:
	default:
		close(o.abort)
	}
	o.mu.Unlock()
}

func (o *seqObs) StreamContext(ctx context.Context) gocql.StreamObserverContext {
	if ctx == nil {
		return nil
	}
	if hold, ok := ctx.Value(seqWaitKey{}).(bool); ok && hold {
		return &seqWait{o}
	}
	return nil
}

// seqWait holds the requester until the receive loop has reported the header of every frame
// of the batch.
type seqWait struct {
	o *seqObs
}

func (w *seqWait) StreamStarted(gocql.ObservedStream)   {}
func (w *seqWait) StreamAbandoned(gocql.ObservedStream) {}
func (w *seqWait) StreamFinished(gocql.ObservedStream) {
	for {
		w.o.mu.Lock()
		if w.o.expected != nil && w.o.matched == len(w.o.expected) {
			w.o.mu.Unlock()
			return
		}
		ch, ab := w.o.changed, w.o.abort
		w.o.mu.Unlock()
		select {
		case <-ch:
		case <-ab:
			return
		}
	}
}

// seqLogger records what the driver logs: a rejected EVENT frame is only logged.
type seqLogger struct {
	mu    sync.Mutex
	lines []string
}

func (l *seqLogger) add(s string) {
	l.mu.Lock()
	l.lines = append(l.lines, strings.TrimSpace(s))
	l.mu.Unlock()
}
func (l *seqLogger) Print(v ...interface{})                 { l.add(fmt.Sprint(v...)) }
func (l *seqLogger) Printf(format string, v ...interface{}) { l.add(fmt.Sprintf(format, v...)) }
func (l *seqLogger) Println(v ...interface{})               { l.add(fmt.Sprintln(v...)) }
func (l *seqLogger) drain() []string {
	l.mu.Lock()
	defer l.mu.Unlock()
	out := l.lines
	l.lines = nil
	return out
}

// ---------------------------------------------------------------------------

type seqConn struct {
	live *gocql.VerifLive
	nd   *lnode
	obs  *seqObs
	log  *seqLogger
}

func seqDial(v int, comp string, alphabet []*seqItem) (*seqConn, error) {
	cl, sv := net.Pipe()
	nd := &lnode{conn: sv, version: v, stmts: map[string]*seqStmt{}, byID: map[string]*seqStmt{}}
	for _, it := range alphabet {
		if it.e != nil {
			st := &seqStmt{it.e, it.id}
			nd.stmts[it.stmt], nd.byID[string(it.id)] = st, st
		}
	}
	go nd.serve()
	sc := &seqConn{nd: nd, obs: newSeqObs(), log: &seqLogger{}}
	nd.onFlush = sc.obs.announce
	cfg := liveConfig(v, comp)
	cfg.FrameHeaderObserver = sc.obs
	cfg.StreamObserver = sc.obs
	cfg.Logger = sc.log
	live, err := gocql.VerifDial(cl, cfg)
	if err != nil {
		cl.Close()
		return nil, err
	}
	sc.live = live
	return sc, nil
}

type seqResult struct {
	iter   *gocql.Iter
	view   *gocql.VerifView
	err    error
	panic  *problem
	tracer *recTracer
}

// issue makes the request of one item; hold: the requester is held (see seqWait).
func (sc *seqConn) issue(it *seqItem, hold bool) (res seqResult) {
	ctx := context.WithValue(context.Background(), seqWaitKey{}, hold)
	res.panic = guard(func() *problem {
		if it.kind == skOptions {
			res.view, res.err = sc.live.Options(ctx)
			return nil
		}
		q := sc.live.Bind(sc.live.S.Query(it.stmt)).WithContext(ctx)
		if it.e.Resp.TraceID != nil {
			res.tracer = &recTracer{}
			q = q.Trace(res.tracer)
		}
		if it.noSkip {
			q = q.NoSkipMetadata()
		}
		if rows, ok := it.e.Resp.Msg.(frame.ResultRows); ok && rows.Meta.HasMorePages {
			q = q.PageState(nil)
		}
		res.iter = q.Iter()
		return nil
	})
	return res
}

// check: what the item's request produced against the item's frame, looked at now.
func (it *seqItem) check(v int, res *seqResult) *problem {
	if res.panic != nil {
		return res.panic
	}
	if it.kind == skOptions {
		if res.err != nil {
			return probf("rejected", "OPTIONS request: %v", res.err)
		}
		vw := res.view
		if vw.FrameType != "*gocql.supportedFrame" || vw.Op != frame.OpSupported {
			return probf("frame-type", "decoded as %s, header opcode 0x%02x", vw.FrameType, vw.Op)
		}
		if len(vw.TraceID) != 0 || len(vw.Warnings) != 0 || vw.HasPayload || vw.Remaining != 0 {
			return probf("envelope", "trace id %x warnings %q payload %v, %d bytes unread; the frame has no flag and ends with the options", vw.TraceID, vw.Warnings, vw.Payload, vw.Remaining)
		}
		if len(vw.Supported) != len(nodeSupported.Options) {
			return probf("fields", "supported %v, frame says %v", vw.Supported, nodeSupported.Options)
		}
		for _, kl := range nodeSupported.Options {
			if got, ok := vw.Supported[kl.Key]; !ok || !sameStrings(got, kl.Values) {
				return probf("fields", "supported[%q] = %q, frame says %q", kl.Key, got, kl.Values)
			}
		}
		return nil
	}
	resp := it.e.Resp
	envelope := func(iter *gocql.Iter) *problem {
		if resp.Warnings != nil && !sameStrings(iter.Warnings(), resp.Warnings) || resp.Warnings == nil && len(iter.Warnings()) != 0 {
			return probf("iter.warnings", "Warnings() = %q, frame says %q", iter.Warnings(), resp.Warnings)
		}
		pl := iter.GetCustomPayload()
		if p := cmpPayload(pl, pl != nil, resp.Payload); p != nil {
			p.key = "iter." + p.key
			return p
		}
		return nil
	}
	var p *problem
	switch m := resp.Msg.(type) {
	case frame.ResultRows:
		used := false
		p = iterChecksN(it.e, func() (*gocql.Iter, *problem) {
			if used {
				return nil, probf("harness", "second iterator asked for")
			}
			used = true
			return res.iter, nil
		}, 1)
	case frame.Error:
		p = guard(func() *problem {
			if p := envelope(res.iter); p != nil {
				return p
			}
			err := res.iter.Close()
			if err == nil {
				return probf("error-lost", "Iter.Close() = nil for an ERROR response 0x%04x", m.Code)
			}
			return cmpError(gocql.VerifErrorView(err), &m, v)
		})
	default:
		p = guard(func() *problem {
			if p := envelope(res.iter); p != nil {
				return p
			}
			if res.iter.NumRows() != 0 {
				return probf("iter.num-rows", "NumRows() = %d for a %T", res.iter.NumRows(), m)
			}
			if err := res.iter.Close(); err != nil {
				return probf("iter.close-error", "Close() = %v for a %T", err, m)
			}
			return nil
		})
	}
	if p != nil {
		return p
	}
	var ids [][]byte
	if res.tracer != nil {
		res.tracer.mu.Lock()
		ids = res.tracer.ids
		res.tracer.mu.Unlock()
	}
	if resp.TraceID != nil {
		if len(ids) != 1 || !bytes.Equal(ids[0], resp.TraceID[:]) {
			return probf("trace-id", "tracer received %x, frame says %x", ids, resp.TraceID[:])
		}
	}
	return nil
}

func (it *seqItem) keyClass() string {
	switch it.kind {
	case skRows:
		return "rows"
	case skError:
		return "error"
	case skVoid:
		return "result/void"
	case skOptions:
		return "supported"
	}
	return "event"
}

// cmpEvent: does the view of a parsed EVENT equal the event the node pushed?
func cmpEvent(vw *gocql.VerifView, ev *frame.Response) *problem {
	if vw.Stream != -1 || vw.Op != frame.OpEvent || len(vw.Warnings) != 0 {
		return probf("header", "event frame reports stream %d opcode 0x%02x warnings %q", vw.Stream, vw.Op, vw.Warnings)
	}
	switch m := ev.Msg.(type) {
	case frame.EventSchemaChange:
		return cmpSchemaChange(vw, &m.SchemaChange, ev.Version)
	case frame.EventTopologyChange:
		if vw.FrameType != "*gocql.topologyChangeEventFrame" || vw.Change != m.Change || !bytes.Equal(vw.Host, m.Addr) || vw.Port != int(m.Port) {
			return probf("fields", "%s change %q host %x port %d, frame says %q %x %d", vw.FrameType, vw.Change, vw.Host, vw.Port, m.Change, m.Addr, m.Port)
		}
	case frame.EventStatusChange:
		if vw.FrameType != "*gocql.statusChangeEventFrame" || vw.Change != m.Change || !bytes.Equal(vw.Host, m.Addr) || vw.Port != int(m.Port) {
			return probf("fields", "%s change %q host %x port %d, frame says %q %x %d", vw.FrameType, vw.Change, vw.Host, vw.Port, m.Change, m.Addr, m.Port)
		}
	}
	return nil
}

// liveSequences enumerates every sequence of 1, 2 and 3 items (thorough tier, connections without
// compression: also 4) of the version's alphabet that contains at least one request (an EVENT
// needs a request before or after it to be sent).
func liveSequences(r *report.Run, v int, comp, mode string) (cases, requests int64) {
	alphabet := seqAlphabet(v)
	cfgName := fmt.Sprintf("v%d compression=%q %s", v, comp, mode)
	var sc *seqConn
	dials := 0
	dial := func() bool {
		if sc != nil {
			sc.live.Close()
			sc.nd.conn.Close()
			sc = nil
		}
		if dials >= 6 {
			return false
		}
		dials++
		c, err := seqDial(v, comp, alphabet)
		if err != nil {
			r.Violation("live:handshake-failed", cfgName+": "+err.Error(), cfgName)
			return false
		}
		sc = c
		// every statement is prepared up front, so that a sequence consists of its EXECUTEs only
		for _, it := range alphabet {
			if it.e != nil {
				res := sc.issue(it, false)
				if p := it.check(v, &res); p != nil {
					r.Violation("live-seq:"+it.keyClass()+":"+p.key, fmt.Sprintf("%s, alone (first use of the statement): %s: %s", cfgName, it.name, p.detail), cfgName)
				}
				requests++
			}
		}
		sc.live.DrainEvents()
		sc.log.drain()
		return true
	}
	if !dial() {
		return
	}
	defer func() {
		if sc != nil {
			sc.live.Close()
			sc.nd.conn.Close()
		}
	}()

	n := len(alphabet)
	caseNo := 0
	maxLen := 3
	if r.Thorough() && comp == "" {
		maxLen = 4
	}
	for length := 1; length <= maxLen; length++ {
		total := 1
		for i := 0; i < length; i++ {
			total *= n
		}
		for code := 0; code < total; code++ {
			seq := make([]*seqItem, length)
			c, nreq := code, 0
			for i := length - 1; i >= 0; i-- {
				seq[i] = alphabet[c%n]
				c /= n
				if seq[i].kind != skEvent {
					nreq++
				}
			}
			if nreq == 0 {
				continue
			}
			caseNo++
			cases++
			requests += int64(nreq)
			names := make([]string, length)
			for i, it := range seq {
				names[i] = it.name
			}
			seqName := strings.Join(names, " , ")
			r.Case("live-seq:"+cfgName+":"+seqName, true)
			if sc == nil {
				continue // the connection could not be re-established (already reported)
			}
			key, detail := sc.runSequence(r, v, mode, seq, caseNo)
			if key != "" {
				r.Violation(key, fmt.Sprintf("%s, sequence [%s]: %s", cfgName, seqName, detail),
					map[string]interface{}{"connection": cfgName, "mode": mode, "sequence": names})
			}
			if sc.live.Closed() {
				if !dial() {
					sc = nil
				}
			}
		}
	}
	return
}

// runSequence plays one sequence and examines every result after the whole sequence arrived.
func (sc *seqConn) runSequence(r *report.Run, v int, mode string, seq []*seqItem, caseNo int) (key, detail string) {
	sc.obs.reset()
	results := make([]seqResult, len(seq))
	events := make([]*frame.Response, len(seq))
	var pushed []*frame.Response
	for i, it := range seq {
		if it.kind == skEvent {
			events[i] = it.events[(caseNo+i)%len(it.events)]
			pushed = append(pushed, events[i])
		}
	}
	outOf := func(i int) seqOut {
		if seq[i].kind == skEvent {
			return seqOut{event: events[i]}
		}
		if seq[i].kind == skOptions {
			return seqOut{key: "options"}
		}
		return seqOut{key: string(seq[i].id)}
	}
	lastReq := -1
	for i, it := range seq {
		if it.kind != skEvent {
			lastReq = i
		}
	}
	if mode == "pipelined" {
		b := &seqBatch{}
		for i, it := range seq {
			b.outs = append(b.outs, outOf(i))
			if it.kind != skEvent {
				b.expect++
			}
		}
		sc.nd.setBatch(b)
		var wg sync.WaitGroup
		for i, it := range seq {
			if it.kind == skEvent {
				continue
			}
			wg.Add(1)
			go func(i int, it *seqItem) {
				defer wg.Done()
				results[i] = sc.issue(it, true)
			}(i, it)
		}
		done := make(chan struct{})
		go func() { wg.Wait(); close(done) }()
		began := time.Now()
	wait:
		for {
			select {
			case <-done:
				break wait
			case <-time.After(50 * time.Millisecond):
				// a requester held in StreamFinished is released if the frames it waits for cannot come
				if sc.live.Closed() {
					sc.obs.abortWaits()
				} else if time.Since(began) > 120*time.Second {
					r.Infra("live sequence: requests did not return within 120 s")
					sc.obs.abortWaits()
					sc.live.C.Close()
				}
			}
		}
	} else {
		// kept: one request at a time; an event goes out just before the response that follows it,
		// events at the end right after the last response
		start := 0
		for i, it := range seq {
			if it.kind == skEvent {
				continue
			}
			b := &seqBatch{expect: 1}
			end := i
			if i == lastReq {
				end = len(seq) - 1
			}
			for j := start; j <= end; j++ {
				b.outs = append(b.outs, outOf(j))
			}
			start = end + 1
			sc.nd.setBatch(b)
			results[i] = sc.issue(it, false)
		}
	}

	// every pushed event ends up parsed and handed on, or rejected and logged
	var evViews []*gocql.VerifView
	var logged []string
	began := time.Now()
	for {
		evViews = append(evViews, sc.live.DrainEvents()...)
		for _, l := range sc.log.drain() {
			if strings.Contains(l, "event frame") { // "unable to parse event frame", "invalid event frame"
				logged = append(logged, l)
			}
		}
		if len(evViews)+len(logged) >= len(pushed) || sc.live.Closed() {
			break
		}
		if time.Since(began) > 120*time.Second {
			r.Infra("live sequence: a pushed EVENT was neither handed on nor rejected within 120 s")
			break
		}
		time.Sleep(20 * time.Microsecond)
	}

	sc.nd.mu.Lock()
	mal := sc.nd.malformd
	sc.nd.malformd = nil
	sc.nd.mu.Unlock()
	if len(mal) > 0 {
		r.Infra("live sequence node: %v", mal)
	}

	for i, it := range seq {
		if it.kind == skEvent {
			continue
		}
		if p := it.check(v, &results[i]); p != nil {
			if p.key == "harness" {
				r.Infra("live sequence: %s", p.detail)
				continue
			}
			later := "the last frame of the sequence"
			if i < len(seq)-1 {
				later = fmt.Sprintf("followed by %d more frame(s)", len(seq)-1-i)
			}
			return "live-seq:" + it.keyClass() + ":" + p.key, fmt.Sprintf("frame %d (%s, %s): %s", i+1, it.name, later, p.detail)
		}
	}
	if len(logged) > 0 {
		return "live-seq:event:rejected", fmt.Sprintf("the driver logged: %q", logged)
	}
	if sc.live.Closed() {
		return "live-seq:connection-closed", "the connection was closed while receiving well-formed frames"
	}
	if len(evViews) != len(pushed) {
		return "live-seq:event:count", fmt.Sprintf("%d events handed on, the node pushed %d", len(evViews), len(pushed))
	}
	// the events are handled by one goroutine each: compare as a multiset
	matched := make([]bool, len(evViews))
	for _, ev := range pushed {
		ok := false
		var first *problem
		for j, vw := range evViews {
			if matched[j] {
				continue
			}
			p := cmpEvent(vw, ev)
			if p == nil {
				matched[j], ok = true, true
				break
			}
			if first == nil {
				first = p
			}
		}
		if !ok {
			return "live-seq:event:" + first.key, fmt.Sprintf("pushed event %+v: %s", ev.Msg, first.detail)
		}
	}
	return "", ""
}
