package main

// End-to-end binding of C04: a real Conn (real handshake over an in-memory pipe,
// real recv loop, real Conn.executeQuery) against a scripted node written with
// the reference codec. This is where skip-metadata (driver supplies the columns
// from the earlier PREPARED response), trace ids handed to a Tracer, negotiated
// compression and errors surfacing through Iter.Close() are exercised in the
// code that implements them.

import (
	"bytes"
	"fmt"
	"io"
	"net"
	"strings"
	"sync"
	"time"

	"github.com/gocql/gocql"
	"github.com/golang/snappy"
	"verif/engine/refcql/frame"
	"verif/engine/report"
)

type lnode struct {
	conn     net.Conn
	version  int
	compress bool

	mu       sync.Mutex
	entry    *frame.Entry // what the next PREPARE / EXECUTE / QUERY is answered with
	prepID   []byte
	skipSeen int // EXECUTEs that carried the skip_metadata flag
	malformd []string
}

func (n *lnode) set(e *frame.Entry, id []byte) {
	n.mu.Lock()
	n.entry, n.prepID = e, id
	n.mu.Unlock()
}

func (n *lnode) serve() {
	defer n.conn.Close()
	for {
		first := make([]byte, 1)
		if _, err := io.ReadFull(n.conn, first); err != nil {
			return
		}
		hs := frame.HeaderSize(int(first[0] & 0x7f))
		hdr := make([]byte, hs)
		hdr[0] = first[0]
		if _, err := io.ReadFull(n.conn, hdr[1:]); err != nil {
			return
		}
		h, _, err := frame.ParseHeader(hdr)
		if err != nil || h.Length < 0 || h.Length > 64<<20 {
			n.mu.Lock()
			n.malformd = append(n.malformd, fmt.Sprintf("unusable request header %x", hdr))
			n.mu.Unlock()
			return
		}
		body := make([]byte, h.Length)
		if _, err := io.ReadFull(n.conn, body); err != nil {
			return
		}
		if h.Flags&frame.FlagCompression != 0 {
			if body, err = snappy.Decode(nil, body); err != nil {
				n.mu.Lock()
				n.malformd = append(n.malformd, "snappy: "+err.Error())
				n.mu.Unlock()
				return
			}
		}
		req, err := frame.DecodeRequestBody(h, body)
		var msg interface{}
		compressReply := n.compress
		if err != nil {
			n.mu.Lock()
			n.malformd = append(n.malformd, err.Error())
			n.mu.Unlock()
			msg = frame.Error{Code: frame.ErrProtocol, Message: err.Error()}
		} else {
			msg = n.answer(req)
		}
		if msg == nil {
			continue
		}
		var resp *frame.Response
		if r, ok := msg.(*frame.Response); ok {
			cp := *r
			cp.Stream = h.Stream
			resp = &cp
		} else {
			resp = &frame.Response{Version: n.version, Stream: h.Stream, Msg: msg}
		}
		enc, err := frame.Encode(resp)
		if err != nil {
			n.mu.Lock()
			n.malformd = append(n.malformd, "node cannot encode its reply: "+err.Error())
			n.mu.Unlock()
			return
		}
		out := enc.Bytes()
		if compressReply {
			ch := enc.Header
			ch.Flags |= frame.FlagCompression
			out = frame.Assemble(ch, snappy.Encode(nil, enc.Body))
		}
		if _, err := n.conn.Write(out); err != nil {
			return
		}
	}
}

func (n *lnode) answer(req *frame.Request) interface{} {
	n.mu.Lock()
	defer n.mu.Unlock()
	v := n.version
	switch m := req.Msg.(type) {
	case *frame.Options:
		return frame.Supported{Options: []frame.KL{{Key: "COMPRESSION", Values: []string{"snappy"}}, {Key: "CQL_VERSION", Values: []string{"3.0.0"}}}}
	case *frame.Startup:
		for _, kv := range m.Options {
			if kv.Key == "COMPRESSION" && kv.Value == "snappy" {
				n.compress = true
			}
		}
		return frame.Ready{}
	case *frame.Register:
		return frame.Ready{}
	case *frame.Prepare:
		p := frame.ResultPrepared{ID: n.prepID}
		if rows, ok := n.entry.Resp.Msg.(frame.ResultRows); ok && v >= 2 {
			meta := rows.Meta
			meta.HasMorePages, meta.PagingState = false, nil
			p.Result = meta
		} else if v >= 2 {
			p.Result = frame.RowsMetadata{NoMetadata: true}
		}
		return p
	case *frame.Execute:
		if !bytes.Equal(m.ID, n.prepID) {
			return frame.Error{Code: frame.ErrUnprepared, Message: "unknown id", StatementID: m.ID}
		}
		if rows, ok := n.entry.Resp.Msg.(frame.ResultRows); ok && m.Params.SkipMetadata {
			n.skipSeen++
			// what a node does when asked to skip the metadata: same flags plus no_metadata, no column specs
			cp := *n.entry.Resp
			rows.Meta.NoMetadata = true
			rows.Meta.Columns = nil
			rows.Meta.GlobalKeyspace, rows.Meta.GlobalTable = "", ""
			cp.Msg = rows
			return &cp
		}
		return n.entry.Resp
	case *frame.Query:
		return n.entry.Resp
	}
	return frame.Error{Code: frame.ErrProtocol, Message: "unexpected request"}
}

type recTracer struct {
	mu  sync.Mutex
	ids [][]byte
}

func (t *recTracer) Trace(id []byte) {
	t.mu.Lock()
	t.ids = append(t.ids, append([]byte(nil), id...))
	t.mu.Unlock()
}

// liveSelection picks the catalogue entries that go through the live connection.
func liveSelection(v int) []*frame.Entry {
	var out []*frame.Entry
	seen := map[string]bool{}
	nTyped, nTypes := 0, 0
	frame.Catalogue(v, frame.CatalogueOptions{}, func(e *frame.Entry) {
		switch m := e.Resp.Msg.(type) {
		case frame.ResultRows:
			if m.Meta.NoMetadata {
				return // the node derives the no_metadata form itself when the request asks for it
			}
			switch {
			case strings.HasPrefix(e.Class, "rows/envelopes/"):
				out = append(out, e)
			case strings.HasPrefix(e.Class, "rows/typed/"):
				if nTyped%53 == 0 {
					out = append(out, e)
				}
				nTyped++
			default:
				if nTypes%29 == 0 {
					out = append(out, e)
				}
				nTypes++
			}
		case frame.Error:
			if m.Code == frame.ErrUnprepared {
				return // answered by the driver itself with a re-prepare + retry: never reaches the application
			}
			if !seen[e.Class] {
				seen[e.Class] = true
				out = append(out, e)
			}
		case frame.ResultVoid, frame.ResultSetKeyspace:
			if !seen[e.Class] {
				seen[e.Class] = true
				out = append(out, e)
			}
		}
	})
	return out
}

func runLive(r *report.Run) {
	start := time.Now()
	var queries, entries, skipped int64
	for v := 1; v <= 5; v++ {
		sel := liveSelection(v)
		for _, comp := range []bool{false, true} {
			q, s := liveConn(r, v, comp, sel)
			queries += q
			skipped += s
			entries += int64(len(sel))
		}
	}
	r.Extra("live_entries", entries)
	r.Extra("live_queries_executed", queries)
	r.Extra("live_executes_with_skip_metadata", skipped)
	r.Extra("live_phase_seconds", time.Since(start).Seconds())
}

func liveConn(r *report.Run, v int, comp bool, sel []*frame.Entry) (queries, skipped int64) {
	cl, sv := net.Pipe()
	nd := &lnode{conn: sv, version: v}
	go nd.serve()
	cfg := *gocql.NewCluster("127.0.0.1")
	cfg.ProtoVersion = v
	cfg.Timeout, cfg.ConnectTimeout = 20*time.Second, 20*time.Second
	if comp {
		cfg.Compressor = gocql.SnappyCompressor{}
	}
	cfgName := fmt.Sprintf("v%d snappy=%v", v, comp)
	live, err := gocql.VerifDial(cl, cfg)
	if err != nil {
		r.Violation("live:handshake-failed", cfgName+": "+err.Error(), cfgName)
		cl.Close()
		return
	}
	defer live.Close()

	for idx, e := range sel {
		for _, noSkip := range []bool{false, true} {
			e, idx := e, idx
			id := []byte{0xaa, byte(idx >> 8), byte(idx), byte(v)}
			stmt := fmt.Sprintf("SELECT * FROM ks.t /* entry %d */", idx)
			tr := &recTracer{}
			mk := func() *gocql.Query {
				nd.set(e, id)
				q := live.Bind(live.S.Query(stmt)).Trace(tr)
				if noSkip {
					q = q.NoSkipMetadata()
				}
				if rows, ok := e.Resp.Msg.(frame.ResultRows); ok && rows.Meta.HasMorePages {
					q = q.PageState(nil) // manual paging: the next page is not fetched behind our back
				}
				queries++
				return q
			}
			caseKey := fmt.Sprintf("live:%s:%s:%d:noskip=%v", cfgName, e.Class, idx, noSkip)
			var p *problem
			switch m := e.Resp.Msg.(type) {
			case frame.ResultRows:
				p = iterChecks(e, func() (*gocql.Iter, *problem) {
					it := mk().Iter()
					return it, nil
				})
			case frame.Error:
				p = guard(func() *problem {
					err := mk().Iter().Close()
					if err == nil {
						return probf("error-lost", "Iter.Close() = nil for an ERROR response 0x%04x", m.Code)
					}
					view := gocql.VerifErrorView(err)
					return cmpError(view, &m, v)
				})
			default:
				p = guard(func() *problem {
					it := mk().Iter()
					if it.NumRows() != 0 {
						return probf("iter.num-rows", "NumRows() = %d for a %T", it.NumRows(), m)
					}
					if err := it.Close(); err != nil {
						return probf("iter.close-error", "Close() = %v for a %T", err, m)
					}
					return nil
				})
			}
			r.Case(caseKey, true)
			if p == nil {
				// the trace id of every traced response reached the tracer
				tr.mu.Lock()
				if e.Resp.TraceID != nil {
					if len(tr.ids) == 0 {
						p = probf("trace-id", "tracer never received the trace id")
					}
					for _, id := range tr.ids {
						if !bytes.Equal(id, e.Resp.TraceID[:]) {
							p = probf("trace-id", "tracer received %x, frame says %x", id, e.Resp.TraceID[:])
						}
					}
				} else if len(tr.ids) != 0 {
					p = probf("trace-id", "tracer received %x without a traced response", tr.ids[0])
				}
				tr.mu.Unlock()
			}
			nd.mu.Lock()
			mal := nd.malformd
			nd.malformd = nil
			nd.mu.Unlock()
			if len(mal) > 0 {
				r.Infra("live node received a request it cannot decode (%s): %v", cfgName, mal)
			}
			if p != nil {
				if p.key == "harness" {
					r.Infra("live %s %s: %s", cfgName, e.Class, p.detail)
					continue
				}
				// same defect, same key as on the catalogue path; live-only symptoms get a live: prefix
				key := classKey(e.Class) + ":" + p.key
				if p.key == "trace-id" || p.key == "error-lost" {
					key = "live:" + key
				}
				if bareParameterisedClass(e) != "" {
					key = "types:custom-type-with-bare-collection-class-name"
				}
				if rows, ok := e.Resp.Msg.(frame.ResultRows); ok && v == 1 && !noSkip && len(rows.Meta.Columns) > 0 && p.key == "iter.columns.columns" {
					// protocol v1 cannot ask to skip metadata and its PREPARED result carries no result
					// metadata: every symptom of using the (empty) prepared metadata is one defect
					p.detail = "(" + p.key + ") " + p.detail
					key = "live:rows:v1-prepared-select-uses-empty-prepared-metadata"
				}
				r.Violation(key, fmt.Sprintf("%s %s noskip=%v: %s", cfgName, e.Class, noSkip, p.detail),
					map[string]interface{}{"connection": cfgName, "class": e.Class, "no_skip_metadata": noSkip, "response": e.Resp})
			}
		}
	}
	nd.mu.Lock()
	skipped = int64(nd.skipSeen)
	nd.mu.Unlock()
	return
}
