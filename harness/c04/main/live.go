package main

// End-to-end binding of C04: a real Conn (real handshake over an in-memory pipe,
// real recv loop, real Conn.executeQuery) against a scripted node written with
// the reference codec. This is where skip-metadata (driver supplies the columns
// from the earlier PREPARED response), trace ids handed to a Tracer, negotiated
// compression and errors surfacing through Iter.Close() are exercised in the
// code that implements them.

import (
	"bytes"
	"fmt"
	"io"
	"net"
	"strings"
	"sync"
	"sync/atomic"
	"time"

	"github.com/gocql/gocql"
	"verif/engine/refcql/frame"
	"verif/engine/report"
)

type lnode struct {
	conn    net.Conn
	version int

	mu       sync.Mutex
	comp     string       // compression negotiated by STARTUP: "", "snappy", "lz4" (every later reply is compressed)
	entry    *frame.Entry // what the next PREPARE / EXECUTE / QUERY is answered with
	prepID   []byte
	skipSeen int // EXECUTEs that carried the skip_metadata flag
	malformd []string

	// sequences (seq.go): statements with a fixed answer, and the script of the frames to send
	stmts   map[string]*seqStmt // by statement text
	byID    map[string]*seqStmt // by prepared id
	batch   *seqBatch
	pending []seqPending
	onFlush func([]seqHead)
}

func (n *lnode) set(e *frame.Entry, id []byte) {
	n.mu.Lock()
	n.entry, n.prepID = e, id
	n.mu.Unlock()
}

func (n *lnode) serve() {
	defer n.conn.Close()
	for {
		first := make([]byte, 1)
		if _, err := io.ReadFull(n.conn, first); err != nil {
			return
		}
		hs := frame.HeaderSize(int(first[0] & 0x7f))
		hdr := make([]byte, hs)
		hdr[0] = first[0]
		if _, err := io.ReadFull(n.conn, hdr[1:]); err != nil {
			return
		}
		h, _, err := frame.ParseHeader(hdr)
		if err != nil || h.Length < 0 || h.Length > 64<<20 {
			n.mu.Lock()
			n.malformd = append(n.malformd, fmt.Sprintf("unusable request header %x", hdr))
			n.mu.Unlock()
			return
		}
		body := make([]byte, h.Length)
		if _, err := io.ReadFull(n.conn, body); err != nil {
			return
		}
		if h.Flags&frame.FlagCompression != 0 {
			n.mu.Lock()
			comp := n.comp
			n.mu.Unlock()
			if body, err = decompressBody(comp, body); err != nil {
				n.mu.Lock()
				n.malformd = append(n.malformd, comp+": "+err.Error())
				n.mu.Unlock()
				return
			}
		}
		req, err := frame.DecodeRequestBody(h, body)
		var msg interface{}
		n.mu.Lock()
		compressReply := n.comp // a STARTUP is answered in the form negotiated before it
		n.mu.Unlock()
		if err == nil && n.scripted(h, req) {
			// part of a sequence: answered (together with the other frames of the batch) once the
			// batch has all its requests
			if !n.flushBatch() {
				return
			}
			continue
		}
		if err != nil {
			n.mu.Lock()
			n.malformd = append(n.malformd, err.Error())
			n.mu.Unlock()
			msg = frame.Error{Code: frame.ErrProtocol, Message: err.Error()}
		} else {
			msg = n.answer(req)
		}
		if msg == nil {
			continue
		}
		var resp *frame.Response
		if r, ok := msg.(*frame.Response); ok {
			cp := *r
			cp.Stream = h.Stream
			resp = &cp
		} else {
			resp = &frame.Response{Version: n.version, Stream: h.Stream, Msg: msg}
		}
		if !n.send(resp, compressReply) {
			return
		}
	}
}

// send encodes resp with the reference codec, compresses the body if the connection negotiated
// a compression, and writes the frame.
func (n *lnode) send(resp *frame.Response, compression string) bool {
	enc, err := frame.Encode(resp)
	if err != nil {
		n.mu.Lock()
		n.malformd = append(n.malformd, "node cannot encode its reply: "+err.Error())
		n.mu.Unlock()
		return false
	}
	out := enc.Bytes()
	if compression != "" {
		ch := enc.Header
		ch.Flags |= frame.FlagCompression
		cb, err := compressBody(compression, enc.Body)
		if err != nil {
			n.mu.Lock()
			n.malformd = append(n.malformd, err.Error())
			n.mu.Unlock()
			return false
		}
		out = frame.Assemble(ch, cb)
	}
	_, err = n.conn.Write(out)
	return err == nil
}

func (n *lnode) answer(req *frame.Request) interface{} {
	n.mu.Lock()
	defer n.mu.Unlock()
	v := n.version
	switch m := req.Msg.(type) {
	case *frame.Options:
		return nodeSupported
	case *frame.Startup:
		for _, kv := range m.Options {
			if kv.Key == "COMPRESSION" && (kv.Value == "snappy" || kv.Value == "lz4") {
				n.comp = kv.Value
			}
		}
		return frame.Ready{}
	case *frame.Register:
		return frame.Ready{}
	case *frame.Prepare:
		entry, id := n.entry, n.prepID
		if st := n.stmts[m.Statement]; st != nil {
			entry, id = st.e, st.id
		}
		p := frame.ResultPrepared{ID: id}
		if rows, ok := entry.Resp.Msg.(frame.ResultRows); ok && v >= 2 {
			meta := rows.Meta
			meta.HasMorePages, meta.PagingState = false, nil
			p.Result = meta
		} else if v >= 2 {
			p.Result = frame.RowsMetadata{NoMetadata: true}
		}
		return p
	case *frame.Execute:
		entry := n.entry
		if st := n.byID[string(m.ID)]; st != nil {
			entry = st.e
		} else if !bytes.Equal(m.ID, n.prepID) {
			return frame.Error{Code: frame.ErrUnprepared, Message: "unknown id", StatementID: m.ID}
		}
		if rows, ok := entry.Resp.Msg.(frame.ResultRows); ok && m.Params.SkipMetadata {
			n.skipSeen++
			// what a node does when asked to skip the metadata: same flags plus no_metadata, no column specs
			cp := *entry.Resp
			rows.Meta.NoMetadata = true
			rows.Meta.Columns = nil
			rows.Meta.GlobalKeyspace, rows.Meta.GlobalTable = "", ""
			cp.Msg = rows
			return &cp
		}
		return entry.Resp
	case *frame.Query:
		return n.entry.Resp
	}
	return frame.Error{Code: frame.ErrProtocol, Message: "unexpected request"}
}

var nodeSupported = frame.Supported{Options: []frame.KL{{Key: "COMPRESSION", Values: []string{"snappy", "lz4"}}, {Key: "CQL_VERSION", Values: []string{"3.0.0"}}}}

type recTracer struct {
	mu  sync.Mutex
	ids [][]byte
}

func (t *recTracer) Trace(id []byte) {
	t.mu.Lock()
	t.ids = append(t.ids, append([]byte(nil), id...))
	t.mu.Unlock()
}

// liveSelection picks the catalogue entries that go through the live connection.
func liveSelection(v int) []*frame.Entry {
	var out []*frame.Entry
	seen := map[string]bool{}
	nTyped, nTypes := 0, 0
	frame.Catalogue(v, frame.CatalogueOptions{}, func(e *frame.Entry) {
		switch m := e.Resp.Msg.(type) {
		case frame.ResultRows:
			if m.Meta.NoMetadata {
				return // the node derives the no_metadata form itself when the request asks for it
			}
			switch {
			case strings.HasPrefix(e.Class, "rows/envelopes/"):
				out = append(out, e)
			case strings.HasPrefix(e.Class, "rows/typed/"):
				if nTyped%53 == 0 {
					out = append(out, e)
				}
				nTyped++
			default:
				if nTypes%29 == 0 {
					out = append(out, e)
				}
				nTypes++
			}
		case frame.Error:
			if m.Code == frame.ErrUnprepared {
				return // answered by the driver itself with a re-prepare + retry: never reaches the application
			}
			if !seen[e.Class] {
				seen[e.Class] = true
				out = append(out, e)
			}
		case frame.ResultVoid, frame.ResultSetKeyspace:
			if !seen[e.Class] {
				seen[e.Class] = true
				out = append(out, e)
			}
		}
	})
	return out
}

// liveCompressions: what the connections negotiate.
var liveCompressions = []string{"", "snappy", "lz4"}

func runLive(r *report.Run) {
	start := time.Now()
	var queries, entries, skipped, bulkQ, seqCases, seqReq int64
	var wg sync.WaitGroup
	sem := make(chan struct{}, 16)
	var tmu sync.Mutex
	slowest := map[string]float64{}
	run := func(part string, f func()) {
		wg.Add(1)
		go func() {
			defer wg.Done()
			sem <- struct{}{}
			defer func() { <-sem }()
			t := time.Now()
			f()
			tmu.Lock()
			if d := time.Since(t).Seconds(); d > slowest[part] {
				slowest[part] = d
			}
			tmu.Unlock()
		}()
	}
	for v := 1; v <= 5; v++ {
		v := v
		sel := liveSelection(v)
		bulk := bulkEntries(v, r.Thorough(), false)
		for _, comp := range liveCompressions {
			comp := comp
			// the catalogue selection
			run("catalogue selection", func() {
				q, s := liveConn(r, v, comp, sel, 0)
				atomic.AddInt64(&queries, q)
				atomic.AddInt64(&skipped, s)
				atomic.AddInt64(&entries, int64(len(sel)))
			})
			// large, highly compressible rows
			run("bulk rows", func() {
				q, s := liveConn(r, v, comp, bulk, 100000)
				atomic.AddInt64(&bulkQ, q)
				atomic.AddInt64(&skipped, s)
				atomic.AddInt64(&entries, int64(len(bulk)))
			})
			// sequences of responses with different headers, consumed late
			for _, mode := range seqModes {
				mode := mode
				run("sequences "+mode, func() {
					c, q := liveSequences(r, v, comp, mode)
					atomic.AddInt64(&seqCases, c)
					atomic.AddInt64(&seqReq, q)
				})
			}
		}
	}
	wg.Wait()
	r.Extra("live_entries", entries)
	r.Extra("live_queries_executed", queries+bulkQ)
	r.Extra("live_bulk_rows_queries_executed", bulkQ)
	r.Extra("live_executes_with_skip_metadata", skipped)
	r.Extra("live_sequences", seqCases)
	r.Extra("live_sequence_requests", seqReq)
	r.Extra("live_slowest_connection_seconds", slowest)
	r.Extra("live_phase_seconds", time.Since(start).Seconds())
}

func liveConfig(v int, comp string) gocql.ClusterConfig {
	cfg := *gocql.NewCluster("127.0.0.1")
	cfg.ProtoVersion = v
	cfg.Timeout, cfg.ConnectTimeout = 60*time.Second, 60*time.Second
	cfg.Compressor = compressorOf(comp)
	return cfg
}

func liveConn(r *report.Run, v int, comp string, sel []*frame.Entry, idxBase int) (queries, skipped int64) {
	cl, sv := net.Pipe()
	nd := &lnode{conn: sv, version: v}
	go nd.serve()
	cfg := liveConfig(v, comp)
	cfgName := fmt.Sprintf("v%d compression=%q", v, comp)
	live, err := gocql.VerifDial(cl, cfg)
	if err != nil {
		r.Violation("live:handshake-failed", cfgName+": "+err.Error(), cfgName)
		cl.Close()
		return
	}
	defer live.Close()

	for idx, e := range sel {
		idx += idxBase
		for _, noSkip := range []bool{false, true} {
			e, idx := e, idx
			id := []byte{0xaa, byte(idx >> 16), byte(idx >> 8), byte(idx), byte(v)}
			stmt := fmt.Sprintf("SELECT * FROM ks.t /* entry %d */", idx)
			tr := &recTracer{}
			mk := func() *gocql.Query {
				nd.set(e, id)
				q := live.Bind(live.S.Query(stmt)).Trace(tr)
				if noSkip {
					q = q.NoSkipMetadata()
				}
				if rows, ok := e.Resp.Msg.(frame.ResultRows); ok && rows.Meta.HasMorePages {
					q = q.PageState(nil) // manual paging: the next page is not fetched behind our back
				}
				queries++
				return q
			}
			caseKey := fmt.Sprintf("live:%s:%s:%d:noskip=%v", cfgName, e.Class, idx, noSkip)
			var p *problem
			switch m := e.Resp.Msg.(type) {
			case frame.ResultRows:
				p = iterChecks(e, func() (*gocql.Iter, *problem) {
					it := mk().Iter()
					return it, nil
				})
			case frame.Error:
				p = guard(func() *problem {
					err := mk().Iter().Close()
					if err == nil {
						return probf("error-lost", "Iter.Close() = nil for an ERROR response 0x%04x", m.Code)
					}
					view := gocql.VerifErrorView(err)
					return cmpError(view, &m, v)
				})
			default:
				p = guard(func() *problem {
					it := mk().Iter()
					if it.NumRows() != 0 {
						return probf("iter.num-rows", "NumRows() = %d for a %T", it.NumRows(), m)
					}
					if err := it.Close(); err != nil {
						return probf("iter.close-error", "Close() = %v for a %T", err, m)
					}
					return nil
				})
			}
			r.Case(caseKey, true)
			if p == nil {
				// the trace id of every traced response reached the tracer
				tr.mu.Lock()
				if e.Resp.TraceID != nil {
					if len(tr.ids) == 0 {
						p = probf("trace-id", "tracer never received the trace id")
					}
					for _, id := range tr.ids {
						if !bytes.Equal(id, e.Resp.TraceID[:]) {
							p = probf("trace-id", "tracer received %x, frame says %x", id, e.Resp.TraceID[:])
						}
					}
				} else if len(tr.ids) != 0 {
					p = probf("trace-id", "tracer received %x without a traced response", tr.ids[0])
				}
				tr.mu.Unlock()
			}
			nd.mu.Lock()
			mal := nd.malformd
			nd.malformd = nil
			nd.mu.Unlock()
			if len(mal) > 0 {
				r.Infra("live node received a request it cannot decode (%s): %v", cfgName, mal)
			}
			if p != nil {
				if p.key == "harness" {
					r.Infra("live %s %s: %s", cfgName, e.Class, p.detail)
					continue
				}
				// same defect, same key as on the catalogue path; live-only symptoms get a live: prefix
				key := classKey(e.Class) + ":" + p.key
				if p.key == "trace-id" || p.key == "error-lost" {
					key = "live:" + key
				}
				if bareParameterisedClass(e) != "" {
					key = "types:custom-type-with-bare-collection-class-name"
				}
				if rows, ok := e.Resp.Msg.(frame.ResultRows); ok && v == 1 && !noSkip && len(rows.Meta.Columns) > 0 && p.key == "iter.columns.columns" {
					// protocol v1 cannot ask to skip metadata and its PREPARED result carries no result
					// metadata: every symptom of using the (empty) prepared metadata is one defect
					p.detail = "(" + p.key + ") " + p.detail
					key = "live:rows:v1-prepared-select-uses-empty-prepared-metadata"
				}
				var replayResp interface{} = e.Resp
				if strings.HasPrefix(e.Class, "rows/bulk/") {
					replayResp = "bulkEntries(): " + e.Class
				}
				r.Violation(key, fmt.Sprintf("%s %s noskip=%v: %s", cfgName, e.Class, noSkip, p.detail),
					map[string]interface{}{"connection": cfgName, "class": e.Class, "no_skip_metadata": noSkip, "response": replayResp})
			}
		}
	}
	nd.mu.Lock()
	skipped = int64(nd.skipSeen)
	nd.mu.Unlock()
	return
}
