package main

// Bulk rows: RESULT rows frames whose body is large and highly compressible (many rows of
// null / empty / repeated cells), so that the compressed body on the wire is much shorter than
// the decoded body - shorter than 4 bytes per cell. They are evaluated uncompressed, snappy- and
// lz4-compressed on the catalogue path (main.go) and served by the live node on connections
// that negotiated no compression, snappy and lz4 (live.go): "the same holds when the body is
// compressed". The description is the oracle in all three forms, so the compressed forms are
// compared against the very same body sent uncompressed.

import (
	"encoding/binary"
	"fmt"

	"github.com/gocql/gocql"
	gocqllz4 "github.com/gocql/gocql/lz4"
	"github.com/golang/snappy"
	"github.com/pierrec/lz4/v4"
	"verif/engine/refcass2"
	"verif/engine/refcql/frame"
)

// compressorOf is the driver-side Compressor for a negotiated algorithm name.
func compressorOf(name string) gocql.Compressor {
	switch name {
	case "snappy":
		return gocql.SnappyCompressor{}
	case "lz4":
		return gocqllz4.LZ4Compressor{}
	}
	return nil
}

// compressBody is the node side: snappy block format, or Cassandra's lz4 body (4-byte
// big-endian decoded length + one lz4 block). The lz4 block comes from the block compressor;
// where it declines (incompressible input) the body is a literal-only block written by the
// reference encoder. Every lz4 body is decoded back with the reference decoder (written from
// the format description) before it is used.
func compressBody(name string, body []byte) ([]byte, error) {
	switch name {
	case "snappy":
		return snappy.Encode(nil, body), nil
	case "lz4":
		dst := make([]byte, 4+lz4.CompressBlockBound(len(body)))
		var c lz4.Compressor
		n, err := c.CompressBlock(body, dst[4:])
		var out []byte
		if err != nil || n == 0 {
			out = refcass2.CassandraLZ4EncodeLiterals(body)
		} else {
			binary.BigEndian.PutUint32(dst, uint32(len(body)))
			out = dst[:4+n]
		}
		back, err := refcass2.CassandraLZ4Decode(out)
		if err != nil || string(back) != string(body) {
			return nil, fmt.Errorf("harness: lz4 body does not decode back to the input: %v", err)
		}
		return out, nil
	}
	return nil, fmt.Errorf("harness: unknown compression %q", name)
}

func decompressBody(name string, body []byte) ([]byte, error) {
	switch name {
	case "snappy":
		return snappy.Decode(nil, body)
	case "lz4":
		return refcass2.CassandraLZ4Decode(body)
	}
	return nil, fmt.Errorf("compressed frame on a connection that negotiated no compression")
}

var bulkFills = []string{"all-null", "all-empty", "repeated", "one-column", "cycle"}

// bulkCell: the cell of row r, column c under a fill pattern.
func bulkCell(v int, t *frame.Type, fill string, r, c int) []byte {
	switch fill {
	case "all-null":
		return nil
	case "all-empty":
		return []byte{}
	case "repeated": // every row carries the same values
		return frame.TypedCell(v, t, frame.CellNormal, 7+c)
	case "one-column": // a sparse table: the first column counts up, all others are null
		if c == 0 {
			return frame.TypedCell(v, t, frame.CellNormal, r)
		}
		return nil
	default: // "cycle": null / empty / one repeated value, shifting by one per row
		switch (r + c) % 3 {
		case 0:
			return nil
		case 1:
			return []byte{}
		}
		return frame.TypedCell(v, t, frame.CellNormal, 3)
	}
}

// bulkEntries: column sets {1, 3, 6 columns over int, varchar, blob} x row counts {64, 512}
// (thorough: also 5000) x the five fill patterns x metadata flags {none, global_tables_spec +
// has_more_pages (v2+), and - withNoMeta, v2+ - no_metadata + has_more_pages with the PREPARED companion}.
func bulkEntries(v int, thorough, withNoMeta bool) []*frame.Entry {
	leaf := []*frame.Type{frame.Leaf(frame.TInt), frame.Leaf(frame.TVarchar), frame.Leaf(frame.TBlob)}
	colSets := [][]*frame.Type{{leaf[0]}, {leaf[0], leaf[1], leaf[2]}, {leaf[1], leaf[0], leaf[2], leaf[0], leaf[1], leaf[2]}}
	counts := []int{64, 512}
	if thorough {
		counts = append(counts, 5000)
	}
	type fc struct{ global, more, noMeta bool }
	flags := []fc{{false, false, false}, {true, v >= 2, false}} // v1 has no paging
	if withNoMeta && v >= 2 {
		flags = append(flags, fc{false, true, true})
	}
	var out []*frame.Entry
	for _, types := range colSets {
		for _, n := range counts {
			for _, fill := range bulkFills {
				for fi, f := range flags {
					rows := make([][][]byte, n)
					for r := range rows {
						rows[r] = make([][]byte, len(types))
						for c, t := range types {
							rows[r][c] = bulkCell(v, t, fill, r, c)
						}
					}
					var paging []byte
					if f.more {
						paging = []byte{0x70, 0x61, 0x67, 0x65}
					}
					e := &frame.Entry{
						Class: fmt.Sprintf("rows/bulk/cols%d/rows%d/%s/flags%d", len(types), n, fill, fi),
						Resp:  &frame.Response{Version: v, Stream: 1, Msg: frame.ResultRows{Meta: bulkMeta(types, f.global, f.more, f.noMeta, paging), Rows: rows}},
						Typed: true,
					}
					if f.noMeta {
						e.Companion = &frame.Response{Version: v, Stream: 1, Msg: frame.ResultPrepared{ID: []byte{0xb0, 0x1c},
							Result: bulkMeta(types, false, false, false, nil)}}
					}
					out = append(out, e)
				}
			}
		}
	}
	return out
}

func bulkMeta(types []*frame.Type, global, more, noMeta bool, paging []byte) frame.RowsMetadata {
	m := frame.RowsMetadata{GlobalTableSpec: global, HasMorePages: more, NoMetadata: noMeta, ColumnCount: int32(len(types))}
	if more {
		m.PagingState = paging
	}
	if noMeta {
		return m
	}
	for i, t := range types {
		c := frame.ColumnSpec{Keyspace: "bulk_ks", Table: "bulk_table", Name: fmt.Sprintf("col%d", i), Type: t}
		if global {
			m.GlobalKeyspace, m.GlobalTable = c.Keyspace, c.Table
		}
		m.Columns = append(m.Columns, c)
	}
	return m
}
