// Worker of check C04: well-formed server responses are decoded to exactly what
// the server said.
//
// The reference codec (verif/engine/refcql/frame) encodes every entry of its
// response catalogue; the bytes go through gocql's real receive path
// (readHeader -> framer.readFrame -> framer.parseFrame, then Iter.Scan / Scanner /
// MapScan / SliceMap / RowData ...) and the driver's view is compared with the
// abstract description that was encoded. See NOTES.md.
package main

import (
	"bytes"
	"encoding/hex"
	"encoding/json"
	"fmt"
	"hash/fnv"
	"os"
	"reflect"
	"runtime"
	"sort"
	"strings"
	"sync"
	"time"

	"github.com/gocql/gocql"
	"verif/engine/refcql/frame"
	"verif/engine/report"
)

// ---------------------------------------------------------------------------

type problem struct {
	key    string // finding key suffix (what is wrong)
	detail string
}

func probf(key, format string, a ...interface{}) *problem {
	return &problem{key, fmt.Sprintf(format, a...)}
}

// ipText: the textual forms of the catalogue's addresses (RFC 5952), written by hand.
var ipText = map[string]string{
	"0a000009":                         "10.0.0.9",
	"c0a801c8":                         "192.168.1.200",
	"20010db8000000000000000000000002": "2001:db8::2",
	"00000000000000000000000000000001": "::1",
}

func cmpType(vt *gocql.VerifType, t *frame.Type, version int, path string) *problem {
	if vt == nil {
		return probf("type.missing", "%s: driver has no type, frame says %s", path, t)
	}
	if int(vt.Proto) != version {
		return probf("type.proto", "%s: TypeInfo.Version() = %d on a v%d connection (%s)", path, vt.Proto, version, t)
	}
	switch t.ID {
	case frame.TCustom:
		if vt.Custom != t.Custom {
			return probf("type.custom", "%s: Custom() = %q, frame says custom class %q", path, vt.Custom, t.Custom)
		}
		if vt.GoType != "NativeType" {
			return probf("type.custom-as-parameterised", "%s: custom class %q became a %s (id 0x%04x)", path, t.Custom, vt.GoType, vt.ID)
		}
		if vt.ID == int(frame.TCustom) {
			return nil
		}
		// the driver may report the CQL type a well-known marshal class stands for
		if id, ok := frame.ApacheClassTypes[t.Custom]; ok && vt.ID == int(id) {
			return nil
		}
		return probf("type.custom-mapped-wrongly", "%s: custom class %q reported as type id 0x%04x", path, t.Custom, vt.ID)
	case frame.TList, frame.TSet:
		if vt.GoType != "CollectionType" || vt.ID != int(t.ID) {
			return probf("type.id", "%s: %s id 0x%04x, frame says %s", path, vt.GoType, vt.ID, t)
		}
		if vt.Key != nil {
			return probf("type.collection", "%s: list/set with a key type", path)
		}
		return cmpType(vt.Elem, t.Elem, version, path+".elem")
	case frame.TMap:
		if vt.GoType != "CollectionType" || vt.ID != int(t.ID) {
			return probf("type.id", "%s: %s id 0x%04x, frame says %s", path, vt.GoType, vt.ID, t)
		}
		if p := cmpType(vt.Key, t.Key, version, path+".key"); p != nil {
			return p
		}
		return cmpType(vt.Elem, t.Elem, version, path+".value")
	case frame.TTuple:
		if vt.GoType != "TupleTypeInfo" || vt.ID != int(t.ID) {
			return probf("type.id", "%s: %s id 0x%04x, frame says %s", path, vt.GoType, vt.ID, t)
		}
		if len(vt.Elems) != len(t.Elems) {
			return probf("type.tuple", "%s: %d tuple elements, frame says %d", path, len(vt.Elems), len(t.Elems))
		}
		for i := range t.Elems {
			if p := cmpType(&vt.Elems[i], t.Elems[i], version, fmt.Sprintf("%s[%d]", path, i)); p != nil {
				return p
			}
		}
		return nil
	case frame.TUDT:
		if vt.GoType != "UDTTypeInfo" || vt.ID != int(t.ID) {
			return probf("type.id", "%s: %s id 0x%04x, frame says %s", path, vt.GoType, vt.ID, t)
		}
		if vt.Keyspace != t.UDTKeyspace || vt.Name != t.UDTName {
			return probf("type.udt", "%s: udt %q.%q, frame says %q.%q", path, vt.Keyspace, vt.Name, t.UDTKeyspace, t.UDTName)
		}
		if len(vt.Fields) != len(t.Fields) {
			return probf("type.udt", "%s: %d udt fields, frame says %d", path, len(vt.Fields), len(t.Fields))
		}
		for i, f := range t.Fields {
			if vt.Fields[i].Name != f.Name {
				return probf("type.udt", "%s: field %d named %q, frame says %q", path, i, vt.Fields[i].Name, f.Name)
			}
			if p := cmpType(&vt.Fields[i].Type, f.Type, version, path+"."+f.Name); p != nil {
				return p
			}
		}
		return nil
	}
	if vt.GoType != "NativeType" || vt.ID != int(t.ID) || vt.Custom != "" {
		return probf("type.id", "%s: %s id 0x%04x custom %q, frame says %s", path, vt.GoType, vt.ID, vt.Custom, t)
	}
	return nil
}

func actualCols(cols []frame.ColumnSpec) int {
	n := 0
	for _, c := range cols {
		if c.Type.ID == frame.TTuple {
			n += len(c.Type.Elems)
		} else {
			n++
		}
	}
	return n
}

func cmpColumns(got []gocql.VerifColumn, exp []frame.ColumnSpec, version int, what string) *problem {
	if len(got) != len(exp) {
		return probf(what+".columns", "%d columns, frame says %d", len(got), len(exp))
	}
	for i, c := range exp {
		g := got[i]
		if g.Keyspace != c.Keyspace || g.Table != c.Table {
			return probf(what+".column.keyspace-table", "column %d is %q.%q, frame says %q.%q", i, g.Keyspace, g.Table, c.Keyspace, c.Table)
		}
		if g.Name != c.Name {
			return probf(what+".column.name", "column %d named %q, frame says %q", i, g.Name, c.Name)
		}
		if p := cmpType(&g.Type, c.Type, version, fmt.Sprintf("column %d", i)); p != nil {
			p.key = what + "." + p.key
			return p
		}
	}
	return nil
}

func rowsFlags(m *frame.RowsMetadata) int {
	f := 0
	if m.GlobalTableSpec {
		f |= 1
	}
	if m.HasMorePages {
		f |= 2
	}
	if m.NoMetadata {
		f |= 4
	}
	return f
}

func cmpRowsMeta(got *gocql.VerifMeta, exp *frame.RowsMetadata, version int, what string) *problem {
	if got.Flags != rowsFlags(exp) {
		return probf(what+".flags", "metadata flags 0x%x, frame says 0x%x", got.Flags, rowsFlags(exp))
	}
	if got.ColCount != int(exp.ColumnCount) {
		return probf(what+".column-count", "column count %d, frame says %d", got.ColCount, exp.ColumnCount)
	}
	if exp.HasMorePages {
		if !bytes.Equal(got.PagingState, exp.PagingState) || (got.PagingState == nil) != (exp.PagingState == nil) {
			return probf(what+".paging-state", "paging state %x (nil=%v), frame says %x", got.PagingState, got.PagingState == nil, exp.PagingState)
		}
	} else if len(got.PagingState) != 0 {
		return probf(what+".paging-state", "paging state %x although has_more_pages is clear", got.PagingState)
	}
	if exp.NoMetadata {
		if len(got.Columns) != 0 {
			return probf(what+".columns", "%d column specs although no_metadata is set", len(got.Columns))
		}
		return nil
	}
	if p := cmpColumns(got.Columns, exp.Columns, version, what); p != nil {
		return p
	}
	if want := actualCols(exp.Columns); got.ActualColCount != want {
		return probf(what+".scan-width", "driver wants %d scan destinations, the columns need %d", got.ActualColCount, want)
	}
	return nil
}

func sameStrings(a, b []string) bool {
	if len(a) != len(b) {
		return false
	}
	for i := range a {
		if a[i] != b[i] {
			return false
		}
	}
	return true
}

func cmpSchemaChange(v *gocql.VerifView, sc *frame.SchemaChange, version int) *problem {
	wantType := map[string]string{"KEYSPACE": "*gocql.schemaChangeKeyspace", "TABLE": "*gocql.schemaChangeTable", "TYPE": "*gocql.schemaChangeType",
		"FUNCTION": "*gocql.schemaChangeFunction", "AGGREGATE": "*gocql.schemaChangeAggregate"}[sc.Target]
	if v.FrameType != wantType {
		return probf("target", "driver decoded %s, frame says target %s", v.FrameType, sc.Target)
	}
	if v.Change != sc.Change || v.Keyspace != sc.Keyspace || v.Object != sc.Name {
		return probf("fields", "change %q keyspace %q object %q, frame says %q %q %q", v.Change, v.Keyspace, v.Object, sc.Change, sc.Keyspace, sc.Name)
	}
	if sc.Target == "FUNCTION" || sc.Target == "AGGREGATE" {
		if !sameStrings(v.Args, sc.Args) {
			return probf("args", "argument types %q, frame says %q", v.Args, sc.Args)
		}
	}
	return nil
}

// compareView checks everything parseFrame produced against the description.
func compareView(v *gocql.VerifView, e *frame.Entry, enc *frame.Encoded, compressed bool, wireLen int) *problem {
	resp := e.Resp
	ver := resp.Version
	if v.Panic != "" {
		return probf("panic", "panic in %s: %s", v.Stage, v.Panic)
	}
	if v.Err != "" {
		return probf("rejected:"+v.Stage, "%s: %s", v.Stage, v.Err)
	}
	// header
	wantFlags := enc.Header.Flags
	if compressed {
		wantFlags |= frame.FlagCompression
	}
	if v.VersionByte != byte(0x80|ver) || v.Flags != wantFlags || v.Stream != resp.Stream || v.Op != enc.Header.Op || v.Length != wireLen {
		return probf("header", "header version byte 0x%02x flags 0x%02x stream %d op 0x%02x length %d; frame says 0x%02x 0x%02x %d 0x%02x %d",
			v.VersionByte, v.Flags, v.Stream, v.Op, v.Length, 0x80|ver, wantFlags, resp.Stream, enc.Header.Op, wireLen)
	}
	// prefixes
	if resp.TraceID != nil {
		if !bytes.Equal(v.TraceID, resp.TraceID[:]) {
			return probf("trace-id", "trace id %x, frame says %x", v.TraceID, resp.TraceID[:])
		}
	} else if len(v.TraceID) != 0 {
		return probf("trace-id", "trace id %x without tracing flag", v.TraceID)
	}
	if resp.Warnings != nil {
		if !sameStrings(v.Warnings, resp.Warnings) {
			return probf("warnings", "warnings %q, frame says %q", v.Warnings, resp.Warnings)
		}
	} else if len(v.Warnings) != 0 {
		return probf("warnings", "warnings %q without warning flag", v.Warnings)
	}
	if p := cmpPayload(v.Payload, v.HasPayload, resp.Payload); p != nil {
		return p
	}
	// body
	switch m := resp.Msg.(type) {
	case frame.Ready:
		if v.FrameType != "*gocql.readyFrame" {
			return probf("frame-type", "decoded as %s", v.FrameType)
		}
	case frame.Authenticate:
		if v.FrameType != "*gocql.authenticateFrame" || v.Class != m.Class {
			return probf("fields", "%s class %q, frame says %q", v.FrameType, v.Class, m.Class)
		}
	case frame.AuthChallenge:
		if v.FrameType != "*gocql.authChallengeFrame" || !bytes.Equal(v.Data, m.Token) || (m.Token == nil) != (v.Data == nil) {
			return probf("fields", "%s token %x nil=%v, frame says %x nil=%v", v.FrameType, v.Data, v.Data == nil, m.Token, m.Token == nil)
		}
	case frame.AuthSuccess:
		if v.FrameType != "*gocql.authSuccessFrame" || !bytes.Equal(v.Data, m.Token) || (m.Token == nil) != (v.Data == nil) {
			return probf("fields", "%s token %x nil=%v, frame says %x nil=%v", v.FrameType, v.Data, v.Data == nil, m.Token, m.Token == nil)
		}
	case frame.Supported:
		if v.FrameType != "*gocql.supportedFrame" {
			return probf("frame-type", "decoded as %s", v.FrameType)
		}
		if len(v.Supported) != len(m.Options) {
			return probf("fields", "supported %v, frame says %v", v.Supported, m.Options)
		}
		for _, kl := range m.Options {
			got, ok := v.Supported[kl.Key]
			if !ok || !sameStrings(got, kl.Values) {
				return probf("fields", "supported[%q] = %q, frame says %q", kl.Key, got, kl.Values)
			}
		}
	case frame.Error:
		if p := cmpError(v, &m, ver); p != nil {
			return p
		}
	case frame.ResultVoid:
		if v.FrameType != "*gocql.resultVoidFrame" {
			return probf("frame-type", "decoded as %s", v.FrameType)
		}
	case frame.ResultSetKeyspace:
		if v.FrameType != "*gocql.resultKeyspaceFrame" || v.Keyspace != m.Keyspace {
			return probf("fields", "%s keyspace %q, frame says %q", v.FrameType, v.Keyspace, m.Keyspace)
		}
	case frame.ResultSchemaChange:
		if p := cmpSchemaChange(v, &m.SchemaChange, ver); p != nil {
			return p
		}
	case frame.EventSchemaChange:
		if p := cmpSchemaChange(v, &m.SchemaChange, ver); p != nil {
			return p
		}
	case frame.EventTopologyChange:
		if v.FrameType != "*gocql.topologyChangeEventFrame" || v.Change != m.Change || !bytes.Equal(v.Host, m.Addr) || v.Port != int(m.Port) {
			return probf("fields", "%s change %q host %x port %d, frame says %q %x %d", v.FrameType, v.Change, v.Host, v.Port, m.Change, m.Addr, m.Port)
		}
	case frame.EventStatusChange:
		if v.FrameType != "*gocql.statusChangeEventFrame" || v.Change != m.Change || !bytes.Equal(v.Host, m.Addr) || v.Port != int(m.Port) {
			return probf("fields", "%s change %q host %x port %d, frame says %q %x %d", v.FrameType, v.Change, v.Host, v.Port, m.Change, m.Addr, m.Port)
		}
	case frame.ResultRows:
		if v.FrameType != "*gocql.resultRowsFrame" {
			return probf("frame-type", "decoded as %s", v.FrameType)
		}
		if p := cmpRowsMeta(&v.Meta, &m.Meta, ver, "meta"); p != nil {
			return p
		}
		if v.NumRows != len(m.Rows) {
			return probf("rows-count", "%d rows, frame says %d", v.NumRows, len(m.Rows))
		}
		// the row content is still unread
		want := 0
		for _, row := range m.Rows {
			for _, c := range row {
				want += 4 + len(c)
			}
		}
		if v.Remaining != want {
			return probf("body-not-consumed", "%d bytes left after the metadata, the row content has %d", v.Remaining, want)
		}
		return nil
	case frame.ResultPrepared:
		if v.FrameType != "*gocql.resultPreparedFrame" {
			return probf("frame-type", "decoded as %s", v.FrameType)
		}
		if !bytes.Equal(v.PreparedID, m.ID) {
			return probf("prepared.id", "id %x, frame says %x", v.PreparedID, m.ID)
		}
		bindFlags := 0
		if m.Bind.GlobalTableSpec {
			bindFlags = 1
		}
		if v.ReqMeta.Flags != bindFlags || v.ReqMeta.ColCount != len(m.Bind.Columns) {
			return probf("prepared.bind.flags", "bind metadata flags 0x%x count %d, frame says 0x%x %d", v.ReqMeta.Flags, v.ReqMeta.ColCount, bindFlags, len(m.Bind.Columns))
		}
		if p := cmpColumns(v.ReqMeta.Columns, m.Bind.Columns, ver, "prepared.bind"); p != nil {
			return p
		}
		if want := actualCols(m.Bind.Columns); v.ReqMeta.ActualColCount != want {
			return probf("prepared.bind.scan-width", "driver expects %d bound values, the bind columns need %d", v.ReqMeta.ActualColCount, want)
		}
		if len(v.ReqMeta.PKeys) != len(m.Bind.PKIndexes) {
			return probf("prepared.pk-indexes", "pk indexes %v, frame says %v", v.ReqMeta.PKeys, m.Bind.PKIndexes)
		}
		for i, pk := range m.Bind.PKIndexes {
			if v.ReqMeta.PKeys[i] != int(pk) {
				return probf("prepared.pk-indexes", "pk indexes %v, frame says %v", v.ReqMeta.PKeys, m.Bind.PKIndexes)
			}
		}
		if m.Bind.GlobalTableSpec && (v.ReqMeta.Keyspace != m.Bind.GlobalKeyspace || v.ReqMeta.Table != m.Bind.GlobalTable) {
			return probf("prepared.bind.table-spec", "bind table spec %q.%q, frame says %q.%q", v.ReqMeta.Keyspace, v.ReqMeta.Table, m.Bind.GlobalKeyspace, m.Bind.GlobalTable)
		}
		if ver >= 2 {
			if p := cmpRowsMeta(&v.RespMeta, &m.Result, ver, "prepared.result"); p != nil {
				return p
			}
		} else if len(v.RespMeta.Columns) != 0 || v.RespMeta.ColCount != 0 {
			return probf("prepared.result", "v1 has no result metadata but the driver reports %d columns", v.RespMeta.ColCount)
		}
	default:
		return probf("harness", "no comparison for %T", resp.Msg)
	}
	if v.Remaining != 0 {
		return probf("body-not-consumed", "%d bytes of the body left unread after parsing", v.Remaining)
	}
	return nil
}

func cmpPayload(got map[string][]byte, has bool, exp []frame.KB) *problem {
	if exp == nil {
		if has || len(got) != 0 {
			return probf("custom-payload", "payload %v without payload flag", got)
		}
		return nil
	}
	if !has && len(exp) > 0 {
		return probf("custom-payload", "no payload, frame says %v", exp)
	}
	if len(got) != len(exp) {
		return probf("custom-payload", "payload %v, frame says %v", got, exp)
	}
	for _, kb := range exp {
		g, ok := got[kb.Key]
		if !ok || !bytes.Equal(g, kb.Value) || (g == nil) != (kb.Value == nil) {
			return probf("custom-payload", "payload[%q] = %x (present %v nil %v), frame says %x (nil %v)", kb.Key, g, ok, g == nil, kb.Value, kb.Value == nil)
		}
	}
	return nil
}

func cmpError(v *gocql.VerifView, m *frame.Error, ver int) *problem {
	wantType := map[int32]string{
		frame.ErrUnavailable: "*gocql.RequestErrUnavailable", frame.ErrWriteTimeout: "*gocql.RequestErrWriteTimeout",
		frame.ErrReadTimeout: "*gocql.RequestErrReadTimeout", frame.ErrReadFailure: "*gocql.RequestErrReadFailure",
		frame.ErrFunctionFailure: "*gocql.RequestErrFunctionFailure", frame.ErrWriteFailure: "*gocql.RequestErrWriteFailure",
		frame.ErrCDCWriteFailure: "*gocql.RequestErrCDCWriteFailure", frame.ErrCASWriteUnknown: "*gocql.RequestErrCASWriteUnknown",
		frame.ErrAlreadyExists: "*gocql.RequestErrAlreadyExists", frame.ErrUnprepared: "*gocql.RequestErrUnprepared",
	}[m.Code]
	if wantType == "" {
		wantType = "gocql.errorFrame"
	}
	if v.FrameType != wantType {
		return probf("error-type", "error 0x%04x decoded as %s, expected %s", m.Code, v.FrameType, wantType)
	}
	if !v.IsError {
		return probf("error-type", "%s is not an error value", v.FrameType)
	}
	if v.ErrCode != int(m.Code) || v.ErrMessage != m.Message {
		return probf("error-code-message", "code 0x%04x message %q, frame says 0x%04x %q", v.ErrCode, v.ErrMessage, m.Code, m.Message)
	}
	clrb := func() *problem {
		if v.Consistency != m.Consistency || v.Received != int(m.Received) || v.BlockFor != int(m.BlockFor) {
			return probf("error-fields", "consistency 0x%04x received %d blockfor %d, frame says 0x%04x %d %d", v.Consistency, v.Received, v.BlockFor, m.Consistency, m.Received, m.BlockFor)
		}
		return nil
	}
	failures := func() *problem {
		if ver < 5 {
			if v.NumFailures != int(m.NumFailures) {
				return probf("error-fields", "numfailures %d, frame says %d", v.NumFailures, m.NumFailures)
			}
			return nil
		}
		if len(v.ErrorMap) != len(m.ReasonMap) || v.NumFailures != len(m.ReasonMap) {
			return probf("error-reason-map", "reason map %v (failures %d), frame says %d entries", v.ErrorMap, v.NumFailures, len(m.ReasonMap))
		}
		for _, r := range m.ReasonMap {
			txt := ipText[hex.EncodeToString(r.Addr)]
			if code, ok := v.ErrorMap[txt]; !ok || code != r.Code {
				return probf("error-reason-map", "reason map %v lacks %s -> %d", v.ErrorMap, txt, r.Code)
			}
		}
		return nil
	}
	switch m.Code {
	case frame.ErrUnavailable:
		if v.Consistency != m.Consistency || v.Required != int(m.Required) || v.Alive != int(m.Alive) {
			return probf("error-fields", "consistency 0x%04x required %d alive %d, frame says 0x%04x %d %d", v.Consistency, v.Required, v.Alive, m.Consistency, m.Required, m.Alive)
		}
	case frame.ErrWriteTimeout:
		if p := clrb(); p != nil {
			return p
		}
		if v.WriteType != m.WriteType {
			return probf("error-fields", "write type %q, frame says %q", v.WriteType, m.WriteType)
		}
		if m.Contentions != nil && v.HasContentions && v.Contentions != uint64(*m.Contentions) {
			return probf("error-fields", "contentions %d, frame says %d", v.Contentions, *m.Contentions)
		}
	case frame.ErrReadTimeout:
		if p := clrb(); p != nil {
			return p
		}
		if v.DataPresentByte != m.DataPresent {
			return probf("error-fields", "data_present %d, frame says %d", v.DataPresentByte, m.DataPresent)
		}
	case frame.ErrReadFailure:
		if p := clrb(); p != nil {
			return p
		}
		if p := failures(); p != nil {
			return p
		}
		if v.DataPresentBool != (m.DataPresent != 0) {
			return probf("error-fields", "data_present %v, frame says %d", v.DataPresentBool, m.DataPresent)
		}
	case frame.ErrWriteFailure:
		if p := clrb(); p != nil {
			return p
		}
		if p := failures(); p != nil {
			return p
		}
		if v.WriteType != m.WriteType {
			return probf("error-fields", "write type %q, frame says %q", v.WriteType, m.WriteType)
		}
	case frame.ErrFunctionFailure:
		if v.Keyspace != m.Keyspace || v.Function != m.Function || !sameStrings(v.ArgTypes, m.ArgTypes) {
			return probf("error-fields", "keyspace %q function %q args %q, frame says %q %q %q", v.Keyspace, v.Function, v.ArgTypes, m.Keyspace, m.Function, m.ArgTypes)
		}
	case frame.ErrCASWriteUnknown:
		if p := clrb(); p != nil {
			return p
		}
	case frame.ErrAlreadyExists:
		if v.Keyspace != m.Keyspace || v.Table != m.Table {
			return probf("error-fields", "keyspace %q table %q, frame says %q %q", v.Keyspace, v.Table, m.Keyspace, m.Table)
		}
	case frame.ErrUnprepared:
		if !bytes.Equal(v.StatementID, m.StatementID) {
			return probf("error-fields", "statement id %x, frame says %x", v.StatementID, m.StatementID)
		}
	}
	return nil
}

// ---------------------------------------------------------------------------
// Row iteration.

// rawCell is a scan destination that records exactly what the driver hands to
// an Unmarshaler: the type and the cell bytes.
type rawCell struct {
	called bool
	isNil  bool
	data   []byte
	typ    gocql.VerifType
}

func (r *rawCell) UnmarshalCQL(info gocql.TypeInfo, data []byte) error {
	r.called = true
	r.isNil = data == nil
	r.data = append([]byte(nil), data...)
	r.typ = gocql.VerifTypeOf(info)
	return nil
}

// expectedDests flattens a row into what each scan destination must receive:
// one per column, tuple columns expand into one per element.
type destExp struct {
	data []byte // nil = null
	typ  *frame.Type
	name string // RowData column name
}

func expectedDests(cols []frame.ColumnSpec, row [][]byte) ([]destExp, error) {
	var out []destExp
	for i, c := range cols {
		if c.Type.ID == frame.TTuple {
			elems, err := frame.SplitTupleCell(row[i], len(c.Type.Elems))
			if err != nil {
				return nil, err
			}
			for j, el := range elems {
				out = append(out, destExp{el, c.Type.Elems[j], fmt.Sprintf("%s[%d]", c.Name, j)})
			}
		} else {
			out = append(out, destExp{row[i], c.Type, c.Name})
		}
	}
	return out, nil
}

func cmpRaw(got *rawCell, exp destExp, version int, where string) *problem {
	if !got.called {
		return probf("scan.dest-not-filled", "%s: destination was not unmarshalled into", where)
	}
	if exp.data == nil {
		if !got.isNil {
			return probf("scan.null-cell", "%s: null cell arrived as %x (non-nil)", where, got.data)
		}
	} else {
		if got.isNil {
			return probf("scan.cell-bytes", "%s: cell %x arrived as null", where, exp.data)
		}
		if !bytes.Equal(got.data, exp.data) {
			return probf("scan.cell-bytes", "%s: cell bytes %x, frame says %x", where, got.data, exp.data)
		}
	}
	if p := cmpType(&got.typ, exp.typ, version, where+" type"); p != nil {
		p.key = "scan." + p.key
		return p
	}
	return nil
}

// typed expectations (Entry.Typed)
func decodeInt(b []byte) int {
	if len(b) != 4 {
		return 0
	}
	return int(int32(uint32(b[0])<<24 | uint32(b[1])<<16 | uint32(b[2])<<8 | uint32(b[3])))
}

func decodeListInt(version int, b []byte) []int {
	if len(b) == 0 {
		return nil
	}
	r := &frame.R{B: b}
	var n int
	if version >= 3 {
		x, _ := r.Int()
		n = int(x)
	} else {
		x, _ := r.Short()
		n = int(x)
	}
	out := make([]int, 0, n)
	for i := 0; i < n; i++ {
		var el []byte
		if version >= 3 {
			el, _ = r.Bytes()
		} else {
			el, _ = r.ShortBytes()
		}
		out = append(out, decodeInt(el))
	}
	return out
}

func typedValue(version int, d destExp) interface{} {
	switch d.typ.ID {
	case frame.TInt:
		return decodeInt(d.data)
	case frame.TVarchar:
		return string(d.data)
	case frame.TBlob:
		return append([]byte{}, d.data...)
	case frame.TList:
		return decodeListInt(version, d.data)
	}
	panic("harness: typedValue of " + d.typ.String())
}

func cmpTyped(got interface{}, d destExp, version int, where string) *problem {
	want := typedValue(version, d)
	if p, ok := got.(*int); ok {
		got = *p
	}
	if p, ok := got.(*string); ok {
		got = *p
	}
	if p, ok := got.(*[]byte); ok {
		got = *p
	}
	if p, ok := got.(*[]int); ok {
		got = *p
	}
	switch w := want.(type) {
	case int:
		if g, ok := got.(int); !ok || g != w {
			return probf("typed.value", "%s: %T %v, frame says int %d", where, got, got, w)
		}
	case string:
		if g, ok := got.(string); !ok || g != w {
			return probf("typed.value", "%s: %T %q, frame says text %q", where, got, got, w)
		}
	case []byte:
		if g, ok := got.([]byte); !ok || !bytes.Equal(g, w) {
			return probf("typed.value", "%s: %T %x, frame says blob %x", where, got, got, w)
		}
	case []int:
		g, ok := got.([]int)
		if !ok || len(g) != len(w) {
			return probf("typed.value", "%s: %T %v, frame says list<int> %v", where, got, got, w)
		}
		for i := range w {
			if g[i] != w[i] {
				return probf("typed.value", "%s: %v, frame says list<int> %v", where, g, w)
			}
		}
	}
	return nil
}

type framePack struct {
	e         *frame.Entry
	enc       *frame.Encoded
	wire      map[string][]byte // compression ("", "snappy", "lz4") -> frame bytes
	companion []byte
}

func (fp *framePack) open(compression string) (*gocql.Iter, *gocql.VerifView, *problem) {
	raw, comp := fp.wire[compression], compressorOf(compression)
	ver := byte(fp.e.Resp.Version)
	view, h := gocql.VerifParse(ver, comp, raw)
	if h == nil {
		return nil, view, probf("rejected:"+view.Stage, "%s%s", view.Err, view.Panic)
	}
	var ph *gocql.VerifHandle
	if fp.companion != nil {
		pv, p := gocql.VerifParse(ver, nil, fp.companion)
		if p == nil {
			return nil, view, probf("skip-metadata.prepared-rejected", "%s%s", pv.Err, pv.Panic)
		}
		ph = p
	}
	it, err := h.Iter(ph)
	if err != nil {
		return nil, view, probf("harness", "%v", err)
	}
	return it, view, nil
}

// effectiveColumns: the columns the application must see for a rows entry.
func effectiveColumns(e *frame.Entry) []frame.ColumnSpec {
	rows := e.Resp.Msg.(frame.ResultRows)
	if rows.Meta.NoMetadata {
		return e.Companion.Msg.(frame.ResultPrepared).Result.Columns
	}
	return rows.Meta.Columns
}

func guard(f func() *problem) (p *problem) {
	defer func() {
		if r := recover(); r != nil {
			site := panicSite()
			fn := site
			if i := strings.Index(fn, " ("); i > 0 {
				fn = fn[:i]
			}
			fn = strings.TrimPrefix(fn, "at ")
			fn = fn[strings.LastIndex(fn, "/")+1:]
			p = probf("panic:"+fn, "panic while iterating: %v | %s", r, site)
		}
	}()
	return f()
}

// panicSite names the innermost gocql (non-harness) function on the panicking stack.
func panicSite() string {
	pcs := make([]uintptr, 40)
	n := runtime.Callers(3, pcs)
	frames := runtime.CallersFrames(pcs[:n])
	var first string
	for {
		f, more := frames.Next()
		if strings.Contains(f.Function, "gocql.") && !strings.Contains(f.File, "zz_verif") && !strings.Contains(f.Function, "main.") {
			return fmt.Sprintf("at %s (%s:%d)", f.Function, f.File[strings.LastIndex(f.File, "/")+1:], f.Line)
		}
		if first == "" && !strings.HasPrefix(f.Function, "runtime.") {
			first = fmt.Sprintf("at %s (%s:%d)", f.Function, f.File[strings.LastIndex(f.File, "/")+1:], f.Line)
		}
		if !more {
			break
		}
	}
	return first
}

// opener produces a fresh iterator over the entry's rows (by re-parsing the frame,
// or by executing a query against the scripted node).
type opener func() (*gocql.Iter, *problem)

func iterChecks(e *frame.Entry, open opener) *problem { return iterChecksN(e, open, 5) }

// iterChecksN runs the first maxPass passes (1: Iter.Scan with raw destinations and the
// Iter's accessors, 2: Scanner, 3: RowData, 4: MapScan, 5: SliceMap); every pass opens a fresh iterator.
func iterChecksN(e *frame.Entry, open opener, maxPass int) *problem {
	rows := e.Resp.Msg.(frame.ResultRows)
	ver := e.Resp.Version
	cols := effectiveColumns(e)
	var dests [][]destExp
	width := 0
	for _, row := range rows.Rows {
		d, err := expectedDests(cols, row)
		if err != nil {
			return probf("harness", "catalogue row is not splittable: %v", err)
		}
		dests = append(dests, d)
	}
	for _, c := range cols {
		if c.Type.ID == frame.TTuple {
			width += len(c.Type.Elems)
		} else {
			width++
		}
	}

	// pass 1: Iter.Scan with raw destinations + Columns / PageState / Warnings / payload / NumRows
	if p := guard(func() *problem {
		it, p := open()
		if p != nil {
			return p
		}
		if it.NumRows() != len(rows.Rows) {
			return probf("iter.num-rows", "NumRows() = %d, frame says %d", it.NumRows(), len(rows.Rows))
		}
		gotCols := it.Columns()
		vc := make([]gocql.VerifColumn, len(gotCols))
		for i, c := range gotCols {
			vc[i] = gocql.VerifColumn{Keyspace: c.Keyspace, Table: c.Table, Name: c.Name, Type: gocql.VerifTypeOf(c.TypeInfo)}
		}
		if p := cmpColumns(vc, cols, ver, "iter.columns"); p != nil {
			return p
		}
		if rows.Meta.HasMorePages {
			if !bytes.Equal(it.PageState(), rows.Meta.PagingState) {
				return probf("iter.page-state", "PageState() = %x, frame says %x", it.PageState(), rows.Meta.PagingState)
			}
		} else if len(it.PageState()) != 0 {
			return probf("iter.page-state", "PageState() = %x without has_more_pages", it.PageState())
		}
		if e.Resp.Warnings != nil && !sameStrings(it.Warnings(), e.Resp.Warnings) || e.Resp.Warnings == nil && len(it.Warnings()) != 0 {
			return probf("iter.warnings", "Warnings() = %q, frame says %q", it.Warnings(), e.Resp.Warnings)
		}
		pl := it.GetCustomPayload()
		if p := cmpPayload(pl, pl != nil, e.Resp.Payload); p != nil {
			p.key = "iter." + p.key
			return p
		}
		for ri := range rows.Rows {
			cells := make([]rawCell, width)
			args := make([]interface{}, width)
			for i := range cells {
				args[i] = &cells[i]
			}
			if !it.Scan(args...) {
				return probf("scan.stopped-early", "Scan returned false at row %d of %d: %v", ri, len(rows.Rows), it.Close())
			}
			for i := range cells {
				if p := cmpRaw(&cells[i], dests[ri][i], ver, fmt.Sprintf("Scan row %d dest %d", ri, i)); p != nil {
					return p
				}
			}
		}
		extra := make([]rawCell, width)
		args := make([]interface{}, width)
		for i := range extra {
			args[i] = &extra[i]
		}
		if it.Scan(args...) {
			return probf("scan.extra-row", "Scan delivered a row beyond the %d in the frame", len(rows.Rows))
		}
		if rem := gocql.VerifIterRemaining(it); rem != 0 {
			return probf("body-not-consumed", "%d bytes of the body left after the last row", rem)
		}
		if err := it.Close(); err != nil {
			return probf("iter.close-error", "Close() = %v", err)
		}
		return nil
	}); p != nil {
		return p
	}
	if maxPass < 2 {
		return nil
	}

	// pass 2: Scanner
	if p := guard(func() *problem {
		it, p := open()
		if p != nil {
			return p
		}
		sc := it.Scanner()
		for ri := range rows.Rows {
			if !sc.Next() {
				return probf("scanner.stopped-early", "Scanner.Next false at row %d of %d: %v", ri, len(rows.Rows), sc.Err())
			}
			cells := make([]rawCell, width)
			args := make([]interface{}, width)
			for i := range cells {
				args[i] = &cells[i]
			}
			if err := sc.Scan(args...); err != nil {
				return probf("scanner.scan-error", "Scanner.Scan row %d: %v", ri, err)
			}
			for i := range cells {
				if p := cmpRaw(&cells[i], dests[ri][i], ver, fmt.Sprintf("Scanner row %d dest %d", ri, i)); p != nil {
					p.key = "scanner." + p.key
					return p
				}
			}
		}
		if sc.Next() {
			return probf("scanner.extra-row", "Scanner delivered a row beyond the %d in the frame", len(rows.Rows))
		}
		if rem := gocql.VerifIterRemaining(it); rem != 0 {
			return probf("body-not-consumed", "Scanner: %d bytes of the body left after the last row", rem)
		}
		if err := sc.Err(); err != nil {
			return probf("scanner.err", "Scanner.Err() = %v", err)
		}
		return nil
	}); p != nil {
		// Scanner indexes the row's cells by destination position: every symptom on a row
		// set where a tuple column is followed by another column is the same defect
		for i, c := range cols {
			if c.Type.ID == frame.TTuple && len(c.Type.Elems) != 1 && i < len(cols)-1 {
				p.detail = "(" + p.key + ") " + p.detail
				p.key = "scanner.tuple-column-followed-by-another-column"
				break
			}
		}
		return p
	}

	if !e.Typed || maxPass < 3 {
		return nil
	}
	names := make([]string, 0, width)
	if len(dests) > 0 {
		for _, d := range dests[0] {
			names = append(names, d.name)
		}
	} else {
		d, _ := expectedDests(cols, make([][]byte, len(cols)))
		for _, x := range d {
			names = append(names, x.name)
		}
	}

	// pass 3: RowData + Scan into its values
	if p := guard(func() *problem {
		it, p := open()
		if p != nil {
			return p
		}
		rd, err := it.RowData()
		if err != nil {
			return probf("rowdata.error", "RowData() = %v", err)
		}
		if !sameStrings(rd.Columns, names) {
			return probf("rowdata.columns", "RowData columns %q, frame says %q", rd.Columns, names)
		}
		for ri := range rows.Rows {
			if !it.Scan(rd.Values...) {
				return probf("rowdata.scan-stopped", "Scan(RowData.Values) false at row %d: %v", ri, it.Close())
			}
			for i, v := range rd.Values {
				if p := cmpTyped(v, dests[ri][i], ver, fmt.Sprintf("RowData row %d value %d", ri, i)); p != nil {
					return p
				}
			}
		}
		return nil
	}); p != nil {
		return p
	}

	// pass 4: MapScan, row by row
	if p := guard(func() *problem {
		it, p := open()
		if p != nil {
			return p
		}
		for ri := range rows.Rows {
			m := map[string]interface{}{}
			if !it.MapScan(m) {
				return probf("mapscan.stopped-early", "MapScan false at row %d of %d: %v", ri, len(rows.Rows), it.Close())
			}
			if len(m) != width {
				return probf("mapscan.keys", "MapScan row %d has %d keys, expected %d (%v)", ri, len(m), width, names)
			}
			for i, d := range dests[ri] {
				g, ok := m[d.name]
				if !ok {
					return probf("mapscan.keys", "MapScan row %d lacks key %q", ri, d.name)
				}
				if p := cmpTyped(g, d, ver, fmt.Sprintf("MapScan row %d key %q", ri, d.name)); p != nil {
					p.key = "mapscan." + p.key
					return p
				}
				_ = i
			}
		}
		if it.MapScan(map[string]interface{}{}) {
			return probf("mapscan.extra-row", "MapScan delivered a row beyond the %d in the frame", len(rows.Rows))
		}
		if rem := gocql.VerifIterRemaining(it); rem != 0 {
			return probf("body-not-consumed", "MapScan: %d bytes of the body left after the last row", rem)
		}
		if err := it.Close(); err != nil {
			return probf("mapscan.close-error", "Close() = %v", err)
		}
		return nil
	}); p != nil {
		return p
	}

	// pass 5: SliceMap
	return guard(func() *problem {
		it, p := open()
		if p != nil {
			return p
		}
		sm, err := it.SliceMap()
		if err != nil {
			return probf("slicemap.error", "SliceMap() = %v", err)
		}
		if len(sm) != len(rows.Rows) {
			return probf("slicemap.rows", "SliceMap has %d rows, frame says %d", len(sm), len(rows.Rows))
		}
		for ri, m := range sm {
			if len(m) != width {
				return probf("slicemap.keys", "SliceMap row %d has %d keys, expected %d", ri, len(m), width)
			}
			for _, d := range dests[ri] {
				g, ok := m[d.name]
				if !ok {
					return probf("slicemap.keys", "SliceMap row %d lacks key %q", ri, d.name)
				}
				if p := cmpTyped(g, d, ver, fmt.Sprintf("SliceMap row %d key %q", ri, d.name)); p != nil {
					p.key = "slicemap." + p.key
					return p
				}
			}
		}
		if rem := gocql.VerifIterRemaining(it); rem != 0 {
			return probf("body-not-consumed", "SliceMap: %d bytes of the body left after the last row", rem)
		}
		return nil
	})
}

// ---------------------------------------------------------------------------

func classKey(class string) string {
	parts := strings.Split(class, "/")
	if len(parts) > 2 {
		switch parts[0] {
		case "rows", "prepared":
			return parts[0]
		}
		parts = parts[:2]
	}
	return strings.Join(parts, "/")
}

type local struct {
	evals     int64
	keys      [][8]byte
	perVer    [6]int64
	perKind   map[string]int64
	classes   map[string]bool
	rowsIter  int64
	typedIter int64
	samples   []string
	// compressed rows frames whose compressed body is shorter than 4 bytes per cell
	smallerThanCells int64
}

type item struct {
	e   *frame.Entry
	seq int
}

func evalEntry(r *report.Run, l *local, e *frame.Entry) {
	ver := e.Resp.Version
	enc, err := frame.Encode(e.Resp)
	if err != nil {
		r.Infra("catalogue entry does not encode: %s v%d: %v", e.Class, ver, err)
		return
	}
	fp := &framePack{e: e, enc: enc, wire: map[string][]byte{"": enc.Bytes()}}
	ch := enc.Header
	ch.Flags |= frame.FlagCompression
	// every entry: uncompressed and snappy; the bulk rows entries (bulk.go) also lz4
	compressions := []string{"", "snappy"}
	if strings.HasPrefix(e.Class, "rows/bulk/") {
		compressions = append(compressions, "lz4")
	}
	cbodies := map[string][]byte{"": enc.Body}
	for _, c := range compressions[1:] {
		cb, err := compressBody(c, enc.Body)
		if err != nil {
			r.Infra("%s v%d: %s: %v", e.Class, ver, c, err)
			return
		}
		cbodies[c] = cb
		fp.wire[c] = frame.Assemble(ch, cb)
	}
	if e.Companion != nil {
		cenc, err := frame.Encode(e.Companion)
		if err != nil {
			r.Infra("companion does not encode: %s v%d: %v", e.Class, ver, err)
			return
		}
		fp.companion = cenc.Bytes()
	}
	kind := strings.SplitN(e.Class, "/", 2)[0]
	if strings.HasPrefix(e.Class, "result/") || strings.HasPrefix(e.Class, "event/") {
		kind = strings.Join(strings.Split(e.Class, "/")[:2], "/")
	}
	_, isRows := e.Resp.Msg.(frame.ResultRows)
	for _, compression := range compressions {
		compressed := compression != ""
		l.evals++
		l.perVer[ver]++
		l.perKind[kind]++
		if compressed && isRows && len(cbodies[compression]) < 4*int(e.Resp.Msg.(frame.ResultRows).Meta.ColumnCount)*len(e.Resp.Msg.(frame.ResultRows).Rows) {
			l.smallerThanCells++
		}
		comp := compressorOf(compression)
		raw, wire := fp.wire[compression], len(cbodies[compression])
		view, _ := gocql.VerifParse(byte(ver), comp, raw)
		p := compareView(view, e, enc, compressed, wire)
		if p == nil && isRows {
			c := compression
			p = iterChecks(e, func() (*gocql.Iter, *problem) { it, _, p := fp.open(c); return it, p })
			l.rowsIter++
			if e.Typed {
				l.typedIter++
			}
		}
		h := fnv.New64a()
		h.Write(raw)
		var k [8]byte
		copy(k[:], h.Sum(nil))
		if p == nil || !strings.HasPrefix(p.key, "rejected:readHeader") {
			l.keys = append(l.keys, k)
		}
		l.classes[fmt.Sprintf("v%d/%s", ver, e.Class)] = true
		if p != nil {
			if p.key == "harness" {
				r.Infra("%s v%d: %s", e.Class, ver, p.detail)
				continue
			}
			key := classKey(e.Class) + ":" + p.key
			if strings.HasPrefix(e.Class, "error/write_timeout/cas-contentions") && p.key == "body-not-consumed" {
				key = "error/write_timeout:v5-cas-contentions-not-read"
			}
			if cls := bareParameterisedClass(e); cls != "" {
				// one defect, many symptoms (wrong type, rejected frame, misread rows): key by the input class
				key = "types:custom-type-with-bare-collection-class-name"
			}
			desc, _ := json.Marshal(e.Resp)
			if len(desc) > 4000 {
				desc, _ = json.Marshal(string(desc[:4000]) + "...")
			}
			fh := hex.EncodeToString(raw)
			if len(fh) > 8000 {
				fh = fh[:8000] + "..."
			}
			r.Violation(key, fmt.Sprintf("v%d %s compression=%q: %s | frame %s", ver, e.Class, compression, p.detail, hexTrunc(raw)),
				map[string]interface{}{"version": ver, "class": e.Class, "compression": compression, "frame_hex": fh, "response": json.RawMessage(desc)})
		}
	}
}

// bareParameterisedClass returns the custom class name of the entry's columns that is the
// bare marshal class of a parameterised type (ListType, MapType, SetType, TupleType), if any.
func bareParameterisedClass(e *frame.Entry) string {
	var found string
	var walk func(t *frame.Type)
	walk = func(t *frame.Type) {
		if t == nil {
			return
		}
		if t.ID == frame.TCustom {
			switch strings.TrimPrefix(t.Custom, "org.apache.cassandra.db.marshal.") {
			case "ListType", "MapType", "SetType", "TupleType":
				found = t.Custom
			}
		}
		walk(t.Key)
		walk(t.Elem)
		for _, x := range t.Elems {
			walk(x)
		}
		for _, f := range t.Fields {
			walk(f.Type)
		}
	}
	cols := func(cs []frame.ColumnSpec) {
		for _, c := range cs {
			walk(c.Type)
		}
	}
	switch m := e.Resp.Msg.(type) {
	case frame.ResultRows:
		cols(m.Meta.Columns)
		if e.Companion != nil {
			cols(e.Companion.Msg.(frame.ResultPrepared).Result.Columns)
		}
	case frame.ResultPrepared:
		cols(m.Bind.Columns)
		cols(m.Result.Columns)
	}
	return found
}

func hexTrunc(b []byte) string {
	if len(b) > 200 {
		return hex.EncodeToString(b[:200]) + fmt.Sprintf("...(%d bytes)", len(b))
	}
	return hex.EncodeToString(b)
}

func main() {
	r := report.New("C04", "exploration")
	r.SetRule("the reference codec's response catalogue (refcql/frame.Catalogue) for protocol versions 1-5: every response kind x envelope (stream {0,1,127,128,32767,-1} x tracing x warnings {none,0,1,2} x custom payload {none,0,1,2 entries incl. a null value}; v4+ for the last two) x " +
		"every ERROR code of the version with its fields (11 consistencies, every write type, v4 numfailures / v5 reason maps of 0,1,3 endpoints with IPv4 and IPv6, CAS contentions) x every schema-change change/target (incl. FUNCTION/AGGREGATE argument lists) as RESULT and as EVENT x topology/status events with IPv4/IPv6 addresses x " +
		"RESULT rows: metadata flags (global_tables_spec x has_more_pages x no_metadata) x one column of every type tree to depth 2 (all leaf ids of the version, custom class names, list/set/map/tuple/UDT around leaves and around each other) with 0..2 rows, and 0..3 columns over {int,varchar,blob,list<int>,tuple<int,varchar>} x 0..2 rows x every null/empty/normal assignment of the cells (rotating patterns above 4 cells; 6 in the thorough tier) x " +
		"RESULT prepared: id x 0..3 bind columns x pk index lists x global spec x result metadata shapes. Each frame is sent uncompressed and snappy-compressed through readHeader -> readFrame -> parseFrame and, for rows, Iter.Scan / Scanner / RowData / MapScan / SliceMap. " +
		"Bulk rows (large, highly compressible bodies: {1,3,6} columns over int/varchar/blob x {64,512; thorough also 5000} rows x fills {all null, all empty, one repeated row, one counting column + nulls, null/empty/value cycle} x metadata flags {none, global+has_more_pages, no_metadata+has_more_pages}) are sent uncompressed, snappy- and lz4-compressed (the compressed body is shorter than 4 bytes per cell) and must decode like the uncompressed form. " +
		"Live part (real Conn over an in-memory pipe, versions 1-5 x negotiated compression {none, snappy, lz4}): a selection of the catalogue and all bulk rows through Conn.executeQuery (prepared, with and without skip-metadata); and every sequence of 1..3 frames (thorough, no compression: 1..4) with at least one request over the version's alphabet of frames with different headers {rows, rows+tracing, ERROR, void, SUPPORTED (OPTIONS), EVENT; v4+: rows+warning, rows+tracing+2 warnings+payload, rows+payload, ERROR+warning, void+warning+payload}, received back to back on one connection in two modes: results kept and examined after the whole sequence arrived, and all requests in flight with every requester held (StreamObserver hook) until the receive loop has reported the header of the last frame (FrameHeaderObserver hook), so that every response is parsed and examined after the later frames arrived. " +
		"A case is one (frame bytes) or one (connection, mode, sequence); non-trivial when the driver accepted the header and the comparison ran.")
	r.Assume("refcql/frame is a faithful reading of native_protocol_v1..v5.spec (hand-computed examples, recorded frame, encode/decode round trip of the whole catalogue)",
		"v5 responses use the v4 layout plus the v5 error bodies (reason map, CAS contentions) - 'v5 as implemented': no result_metadata_id in RESULT Prepared, no metadata_changed flag",
		"cell contents are opaque bytes here (value decoding is property C02/C12), except int/varchar/blob/list<int>/tuple<int,varchar> cells used for the typed scans",
		"MapScan/SliceMap/RowData deliver the Go zero value for a null or empty cell (gocql's documented convention)",
		"live sequences: the order 'later frame received, then earlier response parsed' is produced with the public FrameHeaderObserver / StreamObserver hooks only (no timing); a response must be what its own frame says whatever the connection receives next; pushed EVENT frames are observed where Session.handleEvent hands them on (the event debouncers)")

	thorough := r.Thorough()
	nw := runtime.NumCPU()
	if nw > 16 {
		nw = 16
	}
	items := make(chan item, 4096)
	var gen sync.WaitGroup
	for v := 1; v <= 5; v++ {
		gen.Add(1)
		go func(v int) {
			defer gen.Done()
			n := 0
			if devOnlyLive {
				return
			}
			frame.Catalogue(v, frame.CatalogueOptions{Thorough: thorough}, func(e *frame.Entry) {
				items <- item{e, n}
				n++
			})
			for _, e := range bulkEntries(v, thorough, true) {
				items <- item{e, n}
				n++
			}
		}(v)
	}
	go func() { gen.Wait(); close(items) }()

	locals := make([]*local, nw)
	var wg sync.WaitGroup
	start := time.Now()
	for w := 0; w < nw; w++ {
		l := &local{perKind: map[string]int64{}, classes: map[string]bool{}}
		locals[w] = l
		wg.Add(1)
		go func() {
			defer wg.Done()
			for it := range items {
				func() {
					defer func() {
						if p := recover(); p != nil {
							r.Infra("harness panic on %s v%d: %v", it.e.Class, it.e.Resp.Version, p)
						}
					}()
					evalEntry(r, l, it.e)
				}()
				if it.seq%9973 == 11 && len(l.samples) < 40 {
					b, _ := json.Marshal(it.e.Resp)
					if len(b) > 600 {
						b = append(b[:600], "..."...)
					}
					l.samples = append(l.samples, fmt.Sprintf("v%d %s: %s", it.e.Resp.Version, it.e.Class, b))
				}
			}
		}()
	}
	wg.Wait()

	perVer := map[string]int64{}
	perKind := map[string]int64{}
	classes := map[string]bool{}
	var rowsIter, typedIter, smaller int64
	var samples []string
	for _, l := range locals {
		r.AddCounts(l.evals, l.keys)
		for v := 1; v <= 5; v++ {
			perVer[fmt.Sprintf("v%d", v)] += l.perVer[v]
		}
		for k, n := range l.perKind {
			perKind[k] += n
		}
		for k := range l.classes {
			classes[k] = true
		}
		rowsIter += l.rowsIter
		typedIter += l.typedIter
		smaller += l.smallerThanCells
		samples = append(samples, l.samples...)
	}
	sort.Strings(samples)
	for i := 0; i < report.MaxSamples && len(samples) > 0; i++ {
		r.Sample(samples[(i*len(samples)/report.MaxSamples)%len(samples)])
	}
	r.Extra("frames_per_version", perVer)
	r.Extra("frames_per_kind", perKind)
	r.Extra("shape_classes", len(classes))
	r.Extra("rows_frames_iterated_scan_and_scanner", rowsIter)
	r.Extra("rows_frames_iterated_rowdata_mapscan_slicemap", typedIter)
	r.Extra("compressed_rows_frames_shorter_than_4_bytes_per_cell", smaller)
	r.Extra("catalogue_phase_seconds", time.Since(start).Seconds())

	runLive(r)

	os.Exit(r.Finish(!devOnlyLive))
}

// development aid: VERIF_C04_ONLY_LIVE=1 skips the catalogue phase (the run then reports exhaustive=false)
var devOnlyLive = os.Getenv("VERIF_C04_ONLY_LIVE") != ""

var _ = reflect.DeepEqual
