//go:build verif

package gocql

import (
	"context"
	"net"

	"github.com/gocql/gocql/internal/lru"
)

// VerifLive is a real *Conn, set up by the real connection handshake
// (Session.connect -> dial -> Conn.init -> startupCoordinator) over an in-memory
// net.Conn, attached to a Session that is built like NewSession does it up to
// (not including) Session.init: no control connection, no pool, no ring.
// Queries and batches are created with the public API on S and executed with
// the connection-level entry points Conn.executeQuery / Conn.executeBatch, which
// is where the public options are mapped onto frames.
type VerifLive struct {
	S *Session
	C *Conn
}

type verifPipeDialer struct{ conn net.Conn }

func (d verifPipeDialer) DialHost(ctx context.Context, host *HostInfo) (*DialedHost, error) {
	return &DialedHost{Conn: d.conn, DisableCoalesce: true}, nil
}

type verifNopLogger struct{}

func (verifNopLogger) Print(v ...interface{})                 {}
func (verifNopLogger) Printf(format string, v ...interface{}) {}
func (verifNopLogger) Println(v ...interface{})               {}

// VerifDial performs the real handshake on clientEnd. cfg is a public
// ClusterConfig (ProtoVersion, Compressor, Authenticator, ... as the application
// would set them).
func VerifDial(clientEnd net.Conn, cfg ClusterConfig) (*VerifLive, error) {
	cfg.HostDialer = verifPipeDialer{clientEnd}
	cfg.Logger = verifNopLogger{}
	ctx, cancel := context.WithCancel(context.Background())
	s := &Session{
		cons:     cfg.Consistency,
		prefetch: 0.25,
		cfg:      cfg,
		pageSize: cfg.PageSize,
		stmtsLRU: &preparedLRU{lru: lru.New(cfg.MaxPreparedStmts)},
		ctx:      ctx,
		cancel:   cancel,
		logger:   cfg.logger(),
	}
	connCfg, err := connConfig(&s.cfg)
	if err != nil {
		cancel()
		return nil, err
	}
	s.connCfg = connCfg
	host := &HostInfo{hostId: "verif-host-1", connectAddress: net.IPv4(127, 0, 0, 1), port: 9042}
	c, err := s.connect(ctx, host, connErrorHandlerFn(func(conn *Conn, err error, closed bool) {}))
	if err != nil {
		cancel()
		return nil, err
	}
	return &VerifLive{S: s, C: c}, nil
}

func (l *VerifLive) ExecQuery(q *Query) *Iter { return l.C.executeQuery(q.Context(), q) }
func (l *VerifLive) ExecBatch(b *Batch) *Iter { return l.C.executeBatch(b.Context(), b) }
func (l *VerifLive) Register() error          { return (&controlConn{session: l.S}).registerEvents(l.C) }
func (l *VerifLive) UseKeyspace(ks string) error {
	return l.C.UseKeyspace(ks)
}
func (l *VerifLive) Close() {
	l.C.Close()
	l.S.cancel()
}

type verifFuncDialer struct {
	dial func() (net.Conn, error)
}

func (d verifFuncDialer) DialHost(ctx context.Context, host *HostInfo) (*DialedHost, error) {
	c, err := d.dial()
	if err != nil {
		return nil, err
	}
	return &DialedHost{Conn: c, DisableCoalesce: true}, nil
}

// VerifOpenSession is NewSession(cfg) with the unexported switch that leaves out the control connection
// (the session then knows exactly the hosts of cfg.Hosts); every connection of the pool is made by dial.
// Requests made on the returned Session take the whole public path: Query.Exec / Session.ExecuteBatch ->
// Session.executeQuery / executeBatch -> queryExecutor -> host policy -> pool -> Conn.executeQuery / executeBatch.
func VerifOpenSession(cfg ClusterConfig, dial func() (net.Conn, error)) (*Session, error) {
	cfg.disableControlConn = true
	cfg.HostDialer = verifFuncDialer{dial}
	cfg.Logger = verifNopLogger{}
	return NewSession(cfg)
}
