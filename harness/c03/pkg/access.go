//go:build verif

package gocql

import (
	"context"
	"fmt"
)

// In-package accessors for check C03: they only copy the harness' neutral
// request description into gocql's own write*Frame types and run the real
// buildFrame on a real framer, exactly as Conn.exec does
// (newFramer(c.compressor, c.version); framer.trace() if a tracer is set;
// req.buildFrame(framer, stream); the bytes written are framer.buf).

type VerifValue struct {
	Name  string
	Value []byte // nil = null
	Unset bool
}

type VerifParams struct {
	Consistency           uint16
	SkipMeta              bool
	Values                []VerifValue
	PageSize              int
	PagingState           []byte
	SerialConsistency     uint16
	DefaultTimestamp      bool
	DefaultTimestampValue int64
	Keyspace              string
}

type VerifBatchEntry struct {
	PreparedID []byte
	Statement  string
	Values     []VerifValue
}

const (
	VerifStartup = iota
	VerifOptions
	VerifAuthResponse
	VerifRegister
	VerifQuery
	VerifPrepare
	VerifExecute
	VerifBatch
)

type VerifRequest struct {
	Kind          int
	StartupOpts   map[string]string
	AuthData      []byte
	Events        []string
	Statement     string
	Keyspace      string // PREPARE
	PreparedID    []byte
	Params        VerifParams
	BatchType     byte
	Entries       []VerifBatchEntry
	CustomPayload map[string][]byte
}

func verifValues(in []VerifValue) []queryValues {
	if in == nil {
		return nil
	}
	out := make([]queryValues, len(in))
	for i, v := range in {
		out[i] = queryValues{value: v.Value, name: v.Name, isUnset: v.Unset}
	}
	return out
}

func verifParams(p *VerifParams) queryParams {
	return queryParams{
		consistency:           Consistency(p.Consistency),
		skipMeta:              p.SkipMeta,
		values:                verifValues(p.Values),
		pageSize:              p.PageSize,
		pagingState:           p.PagingState,
		serialConsistency:     SerialConsistency(p.SerialConsistency),
		defaultTimestamp:      p.DefaultTimestamp,
		defaultTimestampValue: p.DefaultTimestampValue,
		keyspace:              p.Keyspace,
	}
}

func verifBuilder(r *VerifRequest) frameBuilder {
	switch r.Kind {
	case VerifStartup:
		return &writeStartupFrame{opts: r.StartupOpts}
	case VerifOptions:
		return &writeOptionsFrame{}
	case VerifAuthResponse:
		return &writeAuthResponseFrame{data: r.AuthData}
	case VerifRegister:
		return &writeRegisterFrame{events: r.Events}
	case VerifQuery:
		return &writeQueryFrame{statement: r.Statement, params: verifParams(&r.Params), customPayload: r.CustomPayload}
	case VerifPrepare:
		return &writePrepareFrame{statement: r.Statement, keyspace: r.Keyspace, customPayload: r.CustomPayload}
	case VerifExecute:
		return &writeExecuteFrame{preparedID: r.PreparedID, params: verifParams(&r.Params), customPayload: r.CustomPayload}
	case VerifBatch:
		b := &writeBatchFrame{
			typ:                   BatchType(r.BatchType),
			consistency:           Consistency(r.Params.Consistency),
			serialConsistency:     SerialConsistency(r.Params.SerialConsistency),
			defaultTimestamp:      r.Params.DefaultTimestamp,
			defaultTimestampValue: r.Params.DefaultTimestampValue,
			customPayload:         r.CustomPayload,
			statements:            make([]batchStatment, len(r.Entries)),
		}
		for i, e := range r.Entries {
			b.statements[i] = batchStatment{preparedID: e.PreparedID, statement: e.Statement, values: verifValues(e.Values)}
		}
		return b
	}
	panic("verif: unknown request kind")
}

// VerifBuild runs the real frame builder. It returns the bytes Conn.exec would
// hand to the connection writer, or the builder's error; a panic inside the
// builder is recovered and returned as panicked.
func VerifBuild(version byte, compressor Compressor, tracing bool, stream int, r *VerifRequest) (frame []byte, err error, panicked interface{}) {
	defer func() {
		if p := recover(); p != nil {
			frame, err, panicked = nil, nil, p
		}
	}()
	f := newFramer(compressor, version)
	if tracing {
		f.trace()
	}
	if err := verifBuilder(r).buildFrame(f, stream); err != nil {
		return nil, err, nil
	}
	return append([]byte(nil), f.buf...), nil, nil
}

// VerifBatchGuard reports what Conn.executeBatch does for a connection of the
// given protocol version before any frame is built: a non-nil error means the
// driver refuses to send a BATCH in that version.
func VerifBatchGuard(version int) (err error) {
	defer func() {
		if p := recover(); p != nil {
			err = nil // it went past the version check (and tripped over the hollow Conn)
		}
	}()
	c := &Conn{version: uint8(version)}
	ctx, cancel := context.WithCancel(context.Background())
	cancel()
	it := c.executeBatch(ctx, &Batch{context: ctx})
	if it != nil && it.err == ErrUnsupported {
		return it.err
	}
	return nil
}

var _ = fmt.Sprint
