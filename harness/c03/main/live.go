package main

import "verif/engine/report"

func runPublicPath(r *report.Run) {}
