package main

// Public-path binding of C03: a real Conn, created by the real handshake over an
// in-memory pipe, talks to a scripted node written with the reference codec. The
// requests are made with the public API (Session.Query / Bind options /
// NewBatch); the node decodes every frame it receives with refcql and the
// harness compares the decoded logical request with what the API call asked for.

import (
	"bytes"
	"encoding/json"
	"fmt"
	"io"
	"net"
	"strings"
	"sync"
	"time"

	"github.com/gocql/gocql"
	"github.com/golang/snappy"
	"verif/engine/refcql/frame"
	"verif/engine/report"
)

type received struct {
	raw    []byte
	header frame.Header
	req    *frame.Request
	err    error // header / decompression / decode error: the frame is malformed
}

type node struct {
	conn    net.Conn
	version int
	auth    bool

	mu  sync.Mutex
	log []*received
}

func (n *node) take() []*received {
	n.mu.Lock()
	defer n.mu.Unlock()
	l := n.log
	n.log = nil
	return l
}

func countMarkers(stmt string) int { return strings.Count(stmt, "?") }

// serve reads frames until the pipe is closed.
func (n *node) serve() {
	defer n.conn.Close()
	for {
		first := make([]byte, 1)
		if _, err := io.ReadFull(n.conn, first); err != nil {
			return
		}
		hs := 9
		if v := int(first[0] & 0x7f); v < 3 {
			hs = 8
		}
		hdr := make([]byte, hs)
		hdr[0] = first[0]
		if _, err := io.ReadFull(n.conn, hdr[1:]); err != nil {
			return
		}
		rc := &received{}
		h, _, err := frame.ParseHeader(hdr)
		rc.header = h
		if err != nil || h.Length < 0 || h.Length > 64<<20 {
			rc.raw, rc.err = hdr, fmt.Errorf("unusable header: %v (length %d)", err, h.Length)
			n.mu.Lock()
			n.log = append(n.log, rc)
			n.mu.Unlock()
			return // cannot resynchronise
		}
		body := make([]byte, h.Length)
		if _, err := io.ReadFull(n.conn, body); err != nil {
			return
		}
		rc.raw = append(hdr, body...)
		plain := body
		if h.Flags&frame.FlagCompression != 0 {
			if plain, err = snappy.Decode(nil, body); err != nil {
				rc.err = fmt.Errorf("snappy: %v", err)
			}
		}
		if rc.err == nil {
			if h.Version != n.version {
				rc.err = fmt.Errorf("frame of protocol v%d on a v%d connection", h.Version, n.version)
			} else {
				rc.req, rc.err = frame.DecodeRequestBody(h, plain)
			}
		}
		n.mu.Lock()
		n.log = append(n.log, rc)
		n.mu.Unlock()
		n.respond(h, rc)
	}
}

func (n *node) respond(h frame.Header, rc *received) {
	v := n.version
	resp := &frame.Response{Version: v, Stream: h.Stream}
	lo, hi := frame.StreamRange(v)
	if h.Stream < lo || h.Stream > hi {
		return
	}
	switch {
	case rc.err != nil:
		resp.Msg = frame.Error{Code: frame.ErrProtocol, Message: "malformed request: " + rc.err.Error()}
	default:
		switch m := rc.req.Msg.(type) {
		case *frame.Options:
			resp.Msg = frame.Supported{Options: []frame.KL{{Key: "COMPRESSION", Values: []string{"snappy", "lz4"}}, {Key: "CQL_VERSION", Values: []string{"3.0.0"}}}}
		case *frame.Startup:
			if n.auth {
				resp.Msg = frame.Authenticate{Class: "org.apache.cassandra.auth.PasswordAuthenticator"}
			} else {
				resp.Msg = frame.Ready{}
			}
		case *frame.AuthResponse, *frame.Credentials:
			if v >= 2 {
				resp.Msg = frame.AuthSuccess{}
			} else {
				resp.Msg = frame.Ready{}
			}
		case *frame.Register:
			resp.Msg = frame.Ready{}
		case *frame.Prepare:
			cols := make([]frame.ColumnSpec, countMarkers(m.Statement))
			for i := range cols {
				cols[i] = frame.ColumnSpec{Keyspace: "ks", Table: "t", Name: fmt.Sprintf("c%d", i), Type: frame.Leaf(frame.TBlob)}
			}
			p := frame.ResultPrepared{ID: preparedID(16), Bind: frame.PreparedMetadata{GlobalTableSpec: true, GlobalKeyspace: "ks", GlobalTable: "t", Columns: cols}}
			p.Result = frame.RowsMetadata{NoMetadata: v >= 2}
			if v == 1 {
				p.Result = frame.RowsMetadata{}
			}
			resp.Msg = p
		case *frame.Query:
			if strings.HasPrefix(m.Statement, "USE ") {
				resp.Msg = frame.ResultSetKeyspace{Keyspace: strings.Trim(strings.TrimPrefix(m.Statement, "USE "), `"`)}
			} else {
				resp.Msg = frame.ResultVoid{}
			}
		default:
			resp.Msg = frame.ResultVoid{}
		}
	}
	enc, err := frame.Encode(resp)
	if err != nil {
		return
	}
	n.conn.Write(enc.Bytes())
}

// ---------------------------------------------------------------------------

type liveVal struct {
	Kind  int  `json:"kind"`
	Named bool `json:"named,omitempty"`
}

type liveAsk struct {
	What string `json:"what"` // query | batch | register | use | batch-v1
	// NEntries > len(Entries): the batch has NEntries statements, statement i is Entries[i%len(Entries)]
	// (the statement-count boundary of the [short] count field)
	NEntries int       `json:"nentries,omitempty"`
	Stmt     string    `json:"stmt,omitempty"`
	Vals     []liveVal `json:"vals,omitempty"`
	Cons     uint16    `json:"cons"`
	PageSize *int      `json:"page_size,omitempty"` // nil: session default (5000)
	Paging   int       `json:"paging_len,omitempty"`
	Serial   uint16    `json:"serial,omitempty"`
	TS       int       `json:"ts_mode"` // tsNow = session default (DefaultTimestamp: true)
	Payload  int       `json:"payload,omitempty"`
	Trace    bool      `json:"trace,omitempty"`
	NoSkip   bool      `json:"no_skip_metadata,omitempty"`
	BType    byte      `json:"batch_type,omitempty"`
	Entries  []struct {
		Stmt string    `json:"stmt"`
		Vals []liveVal `json:"vals,omitempty"`
	} `json:"entries,omitempty"`
}

type nopTracer struct{}

func (nopTracer) Trace([]byte) {}

func apiValues(vals []liveVal) []interface{} {
	out := make([]interface{}, len(vals))
	for i, lv := range vals {
		var v interface{}
		switch lv.Kind {
		case vNormal, vEmpty:
			v = valueBytes(i, lv.Kind)
		case vNull:
			v = []byte(nil)
		case vUnset:
			v = gocql.UnsetValue
		}
		if lv.Named {
			v = gocql.NamedValue(valueName(i), v)
		}
		out[i] = v
	}
	return out
}

func markers(n int) string {
	if n == 0 {
		return ""
	}
	return " WHERE " + strings.TrimSuffix(strings.Repeat("c = ? AND ", n), " AND ")
}

func liveParamAsk(la *liveAsk, vals []liveVal) paramAsk {
	p := paramAsk{Cons: la.Cons, SkipMeta: !la.NoSkip, Paging: la.Paging, Serial: la.Serial, TS: la.TS, PageSize: 5000}
	if la.PageSize != nil {
		p.PageSize = *la.PageSize
	}
	if len(vals) > 0 {
		p.Mode = modePositional
		p.NVals = len(vals)
		for _, v := range vals {
			p.ValKinds = append(p.ValKinds, v.Kind)
		}
		if vals[0].Named {
			p.Mode = modeNamed
		}
	}
	return p
}

// livePayloads: the custom-payload dimension of the public path for the i-th ask of a request kind:
// nil map, non-nil map without entries, one entry, two entries. Below v4 a map with entries cannot be
// expressed and gocql refuses it by panicking inside Conn.exec, which leaves the stream id allocated
// (v1/v2 have 128 of them): there the non-empty payloads are asked once per request kind only.
func livePayloads(version, i int) []int {
	if version >= 4 || i == 0 {
		return allPayloads
	}
	return []int{plNone, plEmpty}
}

func liveAsks(version int) []liveAsk {
	ip := func(n int) *int { return &n }
	var out []liveAsk
	conss := []uint16{0, 1, 2, 3, 4, 5, 6, 7, 10}
	// non-DML statements go out as QUERY
	for i, c := range conss {
		for _, pl := range livePayloads(version, i) {
			la := liveAsk{What: "query", Stmt: fmt.Sprintf("TRUNCATE ks.t%d /*p%d*/", i, pl), Cons: c, TS: tsNow, Payload: pl}
			switch i % 4 {
			case 1:
				la.PageSize, la.TS = ip(0), tsOff
			case 2:
				la.PageSize, la.Paging, la.Serial, la.TS = ip(17), 3, 8, tsFixed
			case 3:
				la.Serial, la.TS, la.Trace = 9, tsNegative, true
			}
			out = append(out, la)
		}
	}
	// DML statements are prepared and go out as PREPARE + EXECUTE
	n := 0
	for _, vals := range [][]liveVal{nil, {{Kind: vNormal}}, {{Kind: vNull}}, {{Kind: vUnset}}, {{Kind: vEmpty}},
		{{Kind: vNormal}, {Kind: vNull}}, {{Kind: vUnset}, {Kind: vEmpty}}, {{Kind: vEmpty}, {Kind: vNormal}},
		{{Kind: vNormal, Named: true}}, {{Kind: vNull, Named: true}, {Kind: vNormal, Named: true}}, {{Kind: vUnset, Named: true}, {Kind: vEmpty, Named: true}}} {
		for variant := 0; variant < 4; variant++ {
			for _, pl := range livePayloads(version, n) {
				la := liveAsk{What: "query", Stmt: fmt.Sprintf("SELECT a FROM ks.t%d_%d%s", n, pl, markers(len(vals))), Vals: vals, Cons: conss[n%len(conss)], TS: tsNow, Payload: pl}
				switch variant {
				case 1:
					la.PageSize, la.TS, la.NoSkip = ip(0), tsOff, true
				case 2:
					la.PageSize, la.Paging, la.Serial, la.TS, la.Trace = ip(100), 300, 9, tsFixed, true
				case 3:
					la.Serial, la.TS = 8, tsNegative
				}
				out = append(out, la)
			}
			n++
		}
	}
	// batches
	if version >= 2 {
		type ent = struct {
			Stmt string    `json:"stmt"`
			Vals []liveVal `json:"vals,omitempty"`
		}
		shapes := [][]ent{
			{},
			{{Stmt: "INSERT INTO ks.b (a) VALUES (1)"}},
			{{Stmt: "INSERT INTO ks.b (a) VALUES (?)", Vals: []liveVal{{Kind: vNormal}}}},
			{{Stmt: "INSERT INTO ks.b (a, b) VALUES (?, ?)", Vals: []liveVal{{Kind: vNull}, {Kind: vEmpty}}}, {Stmt: "UPDATE ks.b SET a = 1"}},
			{{Stmt: "UPDATE ks.b SET x = ? WHERE k = ?", Vals: []liveVal{{Kind: vUnset}, {Kind: vNormal}}}, {Stmt: "INSERT INTO ks.b (a) VALUES (?)", Vals: []liveVal{{Kind: vNormal}}}},
		}
		for i, sh := range shapes {
			for variant := 0; variant < 3; variant++ {
				for _, pl := range livePayloads(version, i*3+variant) {
					la := liveAsk{What: "batch", BType: byte((i + variant) % 3), Cons: conss[(i+variant)%len(conss)], TS: tsNow, Entries: sh, Payload: pl}
					switch variant {
					case 1:
						la.Serial, la.TS, la.Trace = 8, tsFixed, true
					case 2:
						la.Serial, la.TS = 9, tsOff
					}
					out = append(out, la)
				}
			}
		}
	} else {
		out = append(out, liveAsk{What: "batch-v1", Cons: 1})
	}
	out = append(out, liveAsk{What: "register"})
	return out
}

func bad(r *report.Run, key, detail string, replay interface{}) {
	r.Violation("live:"+key, detail, replay)
}

// checkFrames compares the frames the node received during one API call with the expected sequence.
func checkFrames(r *report.Run, cfgName string, la *liveAsk, got []*received, exp []*ask, exs []*expectation) bool {
	replay := map[string]interface{}{"connection": cfgName, "ask": la}
	var frames []*received
	for _, g := range got {
		if g.err == nil && g.req != nil {
			if _, ok := g.req.Msg.(*frame.Options); ok {
				continue // heartbeat
			}
		}
		frames = append(frames, g)
	}
	for _, g := range frames {
		if g.err != nil {
			bad(r, fmt.Sprintf("%s:malformed:%s", frame.OpName(g.header.Op), errClass(g.err)), fmt.Sprintf("%v | frame %s", g.err, hexTrunc(g.raw)), replay)
			return false
		}
	}
	if len(frames) != len(exp) {
		var ops []string
		for _, g := range frames {
			ops = append(ops, frame.OpName(g.header.Op))
		}
		bad(r, la.What+":unexpected-frame-sequence", fmt.Sprintf("node received %v, expected %d frames", ops, len(exp)), replay)
		return false
	}
	for i, g := range frames {
		a, ex := exp[i], exs[i]
		kn := kindNames[a.Kind]
		if g.header.Op != kindOps[a.Kind] {
			bad(r, kn+":header.opcode", fmt.Sprintf("opcode %s, expected %s", frame.OpName(g.header.Op), kn), replay)
			return false
		}
		wantFlags, dontCare := ex.headerFlags(a)
		if gotf := g.header.Flags &^ dontCare; gotf != wantFlags {
			bad(r, kn+":header.flags", fmt.Sprintf("flags 0x%02x, expected 0x%02x (either way: 0x%02x)", g.header.Flags, wantFlags, dontCare), replay)
			return false
		}
		if d := ex.cmpPayload(g.req); d != "" {
			bad(r, kn+":field:custom_payload", d, replay)
			return false
		}
		if f, d := cmpMsg(g.req.Msg, ex.msg, ex); f != "" {
			bad(r, kn+":field:"+f, d+" | frame "+hexTrunc(g.raw), replay)
			return false
		}
	}
	return true
}

func runPublicPath(r *report.Run) {
	start := time.Now()
	var frames, calls, conns int64
	liveOutcomes := map[string]int64{}

	// guard probe: BATCH does not exist in v1
	for v := 1; v <= 5; v++ {
		err := gocql.VerifBatchGuard(v)
		r.Case(fmt.Sprintf("batch-guard-v%d", v), true)
		if v == 1 && err == nil {
			r.Violation("BATCH:v1:sent-although-opcode-undefined-in-v1", "Conn.executeBatch does not refuse a batch on a protocol v1 connection", map[string]int{"version": v})
		}
		if v >= 2 && err != nil {
			r.Violation("BATCH:refused-in-version-that-defines-it", fmt.Sprintf("v%d: %v", v, err), map[string]int{"version": v})
		}
	}

	for v := 1; v <= 5; v++ {
		for _, comp := range []bool{false, true} {
			for _, auth := range []bool{false, true} {
				for _, useKS := range []bool{false, true} {
					cfgName := fmt.Sprintf("v%d snappy=%v auth=%v use_keyspace=%v", v, comp, auth, useKS)
					n, c, f := liveConnection(r, cfgName, v, comp, auth, useKS, liveOutcomes)
					conns += n
					calls += c
					frames += f
				}
			}
		}
	}
	sessions, scalls, sframes := runSessionPath(r, liveOutcomes)
	calls += scalls
	frames += sframes
	r.Extra("live_sessions", sessions)
	r.Extra("live_session_api_calls", scalls)
	r.Extra("live_connections", conns)
	r.Extra("live_api_calls", calls)
	r.Extra("live_frames_decoded", frames)
	r.Extra("live_outcomes", liveOutcomes)
	r.Extra("live_phase_seconds", time.Since(start).Seconds())
}

func liveConnection(r *report.Run, cfgName string, v int, comp, auth, useKS bool, outcomes map[string]int64) (conns, calls, frames int64) {
	cl, sv := net.Pipe()
	nd := &node{conn: sv, version: v, auth: auth}
	go nd.serve()
	cfg := *gocql.NewCluster("127.0.0.1")
	cfg.ProtoVersion = v
	cfg.Timeout, cfg.ConnectTimeout = 20*time.Second, 20*time.Second
	if comp {
		cfg.Compressor = gocql.SnappyCompressor{}
	}
	if auth {
		cfg.Authenticator = gocql.PasswordAuthenticator{Username: "user", Password: "pass"}
	}
	live, err := gocql.VerifDial(cl, cfg)
	hs := nd.take()
	conns = 1
	r.Case("live-handshake:"+cfgName, err == nil)
	replay := map[string]interface{}{"connection": cfgName, "ask": "handshake"}
	// handshake oracle: every frame well-formed; OPTIONS, STARTUP(options), then AUTH_RESPONSE if asked
	for _, g := range hs {
		frames++
		if g.err != nil {
			bad(r, fmt.Sprintf("handshake:%s:v%d:malformed:%s", frame.OpName(g.header.Op), v, errClass(g.err)),
				fmt.Sprintf("%s: %v | frame %s", cfgName, g.err, hexTrunc(g.raw)), replay)
			outcomes["handshake-malformed-frame"]++
			cl.Close()
			return
		}
	}
	if err != nil {
		// a refused handshake is fine only if the version cannot express it (v1 + authentication)
		if v == 1 && auth {
			outcomes["handshake-refused-v1-auth"]++
		} else {
			bad(r, "handshake:failed", fmt.Sprintf("%s: %v", cfgName, err), replay)
		}
		cl.Close()
		return
	}
	wantOps := []byte{frame.OpOptions, frame.OpStartup}
	if auth {
		wantOps = append(wantOps, frame.OpAuthResponse)
	}
	if len(hs) != len(wantOps) {
		bad(r, "handshake:unexpected-frame-sequence", fmt.Sprintf("%s: %d frames", cfgName, len(hs)), replay)
	} else {
		for i, g := range hs {
			if g.header.Op != wantOps[i] {
				bad(r, "handshake:unexpected-frame-sequence", fmt.Sprintf("%s: frame %d is %s", cfgName, i, frame.OpName(g.header.Op)), replay)
				continue
			}
			wantFlags := byte(0)
			if v >= 5 {
				wantFlags = frame.FlagBeta
			}
			if g.header.Op != frame.OpAuthResponse && g.header.Flags != wantFlags {
				bad(r, "handshake:header.flags", fmt.Sprintf("%s: %s flags 0x%02x", cfgName, frame.OpName(g.header.Op), g.header.Flags), replay)
			}
			switch m := g.req.Msg.(type) {
			case *frame.Startup:
				want := []frame.KV{{Key: "CQL_VERSION", Value: "3.0.0"}}
				if comp {
					want = append(want, frame.KV{Key: "COMPRESSION", Value: "snappy"})
				}
				// DRIVER_NAME / DRIVER_VERSION are optional informational options
				var core []frame.KV
				for _, kv := range m.Options {
					if kv.Key != "DRIVER_NAME" && kv.Key != "DRIVER_VERSION" {
						core = append(core, kv)
					}
				}
				if !sameKVSet(core, want) {
					bad(r, "handshake:STARTUP:field:startup.options", fmt.Sprintf("%s: options %v", cfgName, m.Options), replay)
				}
			case *frame.AuthResponse:
				if !bytes.Equal(m.Token, []byte("\x00user\x00pass")) {
					bad(r, "handshake:AUTH_RESPONSE:field:auth.token", fmt.Sprintf("%s: token %q", cfgName, m.Token), replay)
				}
				if comp != (g.header.Flags&frame.FlagCompression != 0) && false {
					// either is fine
				}
			}
		}
	}
	outcomes["handshake-ok"]++
	defer live.Close()

	keyspace := ""
	if useKS {
		if err := live.UseKeyspace("ks1"); err != nil {
			bad(r, "use:failed", err.Error(), replay)
			return
		}
		got := nd.take()
		calls++
		frames += int64(len(got))
		a := &ask{Version: v, Kind: kQuery, Stmt: `USE "ks1"`, P: paramAsk{Cons: uint16(gocql.Quorum)}}
		la := &liveAsk{What: "use", Stmt: a.Stmt}
		r.Case("live:"+cfgName+":use", true)
		if !checkFrames(r, cfgName, la, got, []*ask{a}, []*expectation{expect(a)}) {
			return
		}
		keyspace = "ks1"
	}

	tgt := &liveTarget{
		s:         live.S,
		execQuery: func(q *gocql.Query) error { return live.ExecQuery(q).Close() },
		execBatch: func(b *gocql.Batch) error { return live.ExecBatch(b).Close() },
		register:  live.Register,
		take:      nd.take,
	}
	c, f := runLiveAsks(r, cfgName, v, keyspace, tgt, liveAsks(v), outcomes)
	calls += c
	frames += f
	return
}

// liveTarget is where the API calls of the public path go: the Conn-level entry points of one connection
// (Conn.executeQuery / Conn.executeBatch, liveConnection) or a whole Session (Query.Exec /
// Session.ExecuteBatch through the query executor, the host policy and the pool, runSessionPath).
type liveTarget struct {
	s         *gocql.Session
	execQuery func(*gocql.Query) error
	execBatch func(*gocql.Batch) error
	register  func() error
	take      func() []*received
}

// liveBatchAsk is the frame a "batch" API call must produce.
func liveBatchAsk(v int, la *liveAsk) *ask {
	n := len(la.Entries)
	if la.NEntries > 0 {
		n = la.NEntries
	}
	ba := &ask{Version: v, Kind: kBatch, BType: la.BType, Tracing: la.Trace, Payload: la.Payload, NEntries: n,
		P: paramAsk{Cons: la.Cons, Serial: la.Serial, TS: la.TS}}
	for _, e := range la.Entries {
		ea := entryAsk{Prepared: len(e.Vals) > 0, Mode: modeNone}
		if len(e.Vals) > 0 {
			ea.Mode, ea.NVals = modePositional, len(e.Vals)
			for _, lv := range e.Vals {
				ea.ValKinds = append(ea.ValKinds, lv.Kind)
			}
		}
		ba.Entries = append(ba.Entries, ea)
		ba.EntryStmts = append(ba.EntryStmts, e.Stmt)
	}
	return ba
}

// runLiveAsks makes every API call of asks on tgt and compares what the node received with the call.
func runLiveAsks(r *report.Run, cfgName string, v int, keyspace string, tgt *liveTarget, asks []liveAsk, outcomes map[string]int64) (calls, frames int64) {
	preparedSeen := map[string]bool{}
	for _, la := range asks {
		la := la
		calls++
		// the frames the call must produce are worked out BEFORE the call (a refusal by panic must not lose them)
		var exp []*ask
		var call func() error
		prepareOf := func(stmt string) *ask {
			pa := &ask{Version: v, Kind: kPrepare, Stmt: stmt, Tracing: la.Trace}
			if v >= 5 {
				pa.PrepKS = keyspace
			}
			return pa
		}
		switch la.What {
		case "register":
			call = tgt.register
			exp = append(exp, &ask{Version: v, Kind: kRegister, Body: 0})
		case "batch-v1":
			call = func() error {
				b := tgt.s.NewBatch(gocql.LoggedBatch)
				b.Query("INSERT INTO ks.t (a) VALUES (1)")
				return tgt.execBatch(b)
			}
		case "query":
			call = func() error {
				q := tgt.s.Query(la.Stmt, apiValues(la.Vals)...).Consistency(gocql.Consistency(la.Cons))
				if la.PageSize != nil {
					q = q.PageSize(*la.PageSize)
				}
				if la.Paging > 0 {
					q = q.PageState(pagingState(la.Paging))
				}
				if la.Serial != 0 {
					q = q.SerialConsistency(gocql.SerialConsistency(la.Serial))
				}
				switch la.TS {
				case tsOff:
					q = q.DefaultTimestamp(false)
				case tsFixed:
					q = q.WithTimestamp(fixedTS)
				case tsNegative:
					q = q.WithTimestamp(negativeTS)
				}
				if la.Payload != plNone {
					q = q.CustomPayload(payloadMap(la.Payload))
				}
				if la.Trace {
					q = q.Trace(nopTracer{})
				}
				if la.NoSkip {
					q = q.NoSkipMetadata()
				}
				return tgt.execQuery(q)
			}
			dml := strings.HasPrefix(la.Stmt, "SELECT")
			p := liveParamAsk(&la, la.Vals)
			p.Keyspace = ""
			if v >= 5 {
				p.Keyspace = keyspace
			}
			if dml {
				if !preparedSeen[la.Stmt] {
					exp = append(exp, prepareOf(la.Stmt))
				}
				exp = append(exp, &ask{Version: v, Kind: kExecute, IDLen: 16, Tracing: la.Trace, Payload: la.Payload, P: p})
			} else {
				p.SkipMeta = false // skip_metadata is only requested for prepared statements
				exp = append(exp, &ask{Version: v, Kind: kQuery, Stmt: la.Stmt, Tracing: la.Trace, Payload: la.Payload, P: p})
			}
		case "batch":
			call = func() error {
				b := tgt.s.NewBatch(gocql.BatchType(la.BType))
				b.Cons = gocql.Consistency(la.Cons)
				if la.NEntries > 0 {
					// the large batches of the statement-count boundary: entries are written directly
					b.Entries = make([]gocql.BatchEntry, la.NEntries)
					args := make([][]interface{}, len(la.Entries))
					for i, e := range la.Entries {
						args[i] = apiValues(e.Vals)
					}
					for i := range b.Entries {
						b.Entries[i].Stmt, b.Entries[i].Args = la.Entries[i%len(la.Entries)].Stmt, args[i%len(la.Entries)]
					}
				} else {
					for _, e := range la.Entries {
						b.Query(e.Stmt, apiValues(e.Vals)...)
					}
				}
				if la.Serial != 0 {
					b.SerialConsistency(gocql.SerialConsistency(la.Serial))
				}
				switch la.TS {
				case tsOff:
					b.DefaultTimestamp(false)
				case tsFixed:
					b.WithTimestamp(fixedTS)
				}
				if la.Payload != plNone {
					b.CustomPayload = payloadMap(la.Payload)
				}
				if la.Trace {
					b.Trace(nopTracer{})
				}
				return tgt.execBatch(b)
			}
			// the same statement is prepared once per connection (prepared statement cache)
			expPrep := map[string]bool{}
			for i, e := range la.Entries {
				if la.NEntries > 0 && i >= la.NEntries {
					break
				}
				if len(e.Vals) > 0 && !preparedSeen[e.Stmt] && !expPrep[e.Stmt] {
					expPrep[e.Stmt] = true
					exp = append(exp, prepareOf(e.Stmt))
				}
			}
			exp = append(exp, liveBatchAsk(v, &la))
		}
		var apiErr error
		var panicked interface{}
		func() {
			defer func() { panicked = recover() }()
			apiErr = call()
		}()
		got := tgt.take()
		frames += int64(len(got))
		for _, g := range got {
			if g.err == nil && g.req != nil {
				if m, ok := g.req.Msg.(*frame.Prepare); ok {
					preparedSeen[m.Statement] = true
				}
			}
		}
		key, _ := json.Marshal(la)
		r.Case("live:"+cfgName+":"+string(key), len(got) > 0)
		replay := map[string]interface{}{"connection": cfgName, "ask": la}
		if la.What == "batch-v1" {
			if len(got) != 0 || apiErr == nil {
				bad(r, "BATCH:v1:sent-although-opcode-undefined-in-v1", fmt.Sprintf("err=%v frames=%d", apiErr, len(got)), replay)
			}
			outcomes["batch-v1-refused"]++
			continue
		}
		exs := make([]*expectation, len(exp))
		var inexpr []string
		for i, a := range exp {
			exs[i] = expect(a)
			inexpr = append(inexpr, exs[i].inexpr...)
		}
		if panicked != nil || apiErr != nil {
			// a refusal is acceptable only when something inexpressible was asked; frames sent
			// before the refusal must still be well-formed, and the refused request itself must not be among them
			for _, g := range got {
				if g.err != nil {
					bad(r, fmt.Sprintf("%s:malformed:%s", frame.OpName(g.header.Op), errClass(g.err)), fmt.Sprintf("%v | frame %s", g.err, hexTrunc(g.raw)), replay)
				}
			}
			if len(inexpr) == 0 {
				bad(r, la.What+":refused-expressible-request", fmt.Sprintf("error %v panic %v", apiErr, panicked), replay)
			}
			how := "refused-by-error"
			if panicked != nil {
				// (a panic inside Conn.exec leaves the stream id allocated; see livePayloads)
				how = "refused-by-panic"
			}
			outcomes[how]++
			if len(inexpr) > 0 {
				outcomes[how+": "+strings.Join(inexpr, "+")]++
			}
			continue
		}
		if checkFrames(r, cfgName, &la, got, exp, exs) {
			outcomes["ok"]++
			if len(inexpr) > 0 {
				outcomes["sent-well-formed-without: "+strings.Join(inexpr, "+")]++
			}
		}
	}
	return
}

// ---------------------------------------------------------------------------
// Session-level public path: a whole Session (NewSession without a control connection; its one host is
// dialled over an in-memory pipe to the scripted node) executes Query.Exec / Session.ExecuteBatch through the
// query executor, the host selection policy and the connection pool. This is where the driver decides whether a
// batch can be expressed at all (the BATCH statement count is a [short]): the statement-count boundary
// 65535 (must go out well-formed, every statement recovered) / 65536 / 65537 (must be refused: whatever reaches
// the node must be well-formed and be the request) is asked here, once per version x compression, together
// with the custom-payload dimension of every request kind.

type nodeSet struct {
	version int
	mu      sync.Mutex
	nodes   []*node
}

func (ns *nodeSet) dial() (net.Conn, error) {
	cl, sv := net.Pipe()
	nd := &node{conn: sv, version: ns.version}
	ns.mu.Lock()
	ns.nodes = append(ns.nodes, nd)
	ns.mu.Unlock()
	go nd.serve()
	return cl, nil
}

func (ns *nodeSet) take() []*received {
	ns.mu.Lock()
	defer ns.mu.Unlock()
	var out []*received
	for _, nd := range ns.nodes {
		out = append(out, nd.take()...)
	}
	return out
}

// sessionAsks: custom payload nil / empty / 1 / 2 entries x QUERY, EXECUTE, BATCH, and the batch statement
// counts around the [short] boundary (statements rotate over unprepared without values / prepared with one
// value / another unprepared statement; the large batches are built once per session).
func sessionAsks(version int) []liveAsk {
	type ent = struct {
		Stmt string    `json:"stmt"`
		Vals []liveVal `json:"vals,omitempty"`
	}
	var out []liveAsk
	for i, base := range []liveAsk{
		{What: "query", Stmt: "TRUNCATE ks.s", Cons: 4, TS: tsNow},
		{What: "query", Stmt: "SELECT a FROM ks.s WHERE c = ?", Vals: []liveVal{{Kind: vNormal}}, Cons: 6, TS: tsFixed},
		{What: "query", Stmt: "SELECT a FROM ks.s2 WHERE c = ? AND d = ?", Vals: []liveVal{{Kind: vNull, Named: true}, {Kind: vEmpty, Named: true}}, Cons: 1, Serial: 8, TS: tsNow, Trace: true},
		{What: "batch", BType: 1, Cons: 6, TS: tsNow, Entries: []ent{{Stmt: "INSERT INTO ks.s (a) VALUES (1)"}, {Stmt: "INSERT INTO ks.s (a) VALUES (?)", Vals: []liveVal{{Kind: vNormal}}}}},
	} {
		if version == 1 && base.What == "batch" {
			continue
		}
		pls := allPayloads
		if version < 4 && i%2 == 1 {
			pls = []int{plNone, plEmpty} // see livePayloads
		}
		for _, pl := range pls {
			la := base
			la.Payload = pl
			if la.What == "query" {
				la.Stmt = strings.Replace(la.Stmt, "ks.s", fmt.Sprintf("ks.p%d_s", pl), 1)
			}
			out = append(out, la)
		}
	}
	if version == 1 {
		return append(out, liveAsk{What: "batch-v1", Cons: 1})
	}
	pattern := []ent{
		{Stmt: "INSERT INTO ks.big (a) VALUES (1)"},
		{Stmt: "INSERT INTO ks.big (a) VALUES (?)", Vals: []liveVal{{Kind: vNormal}}},
		{Stmt: "UPDATE ks.big SET b = 2"},
	}
	for i, n := range []int{1, maxCount - 1, maxCount, maxCount + 1, maxCount + 2} {
		la := liveAsk{What: "batch", BType: byte(i % 3), Cons: 6, TS: tsNow, Entries: pattern, NEntries: n}
		if n == maxCount+2 {
			la.Entries = pattern[:1]
		}
		out = append(out, la)
	}
	return out
}

func runSessionPath(r *report.Run, outcomes map[string]int64) (sessions, calls, frames int64) {
	for v := 1; v <= 5; v++ {
		for _, comp := range []bool{false, true} {
			cfgName := fmt.Sprintf("session v%d snappy=%v", v, comp)
			ns := &nodeSet{version: v}
			cfg := *gocql.NewCluster("127.0.0.1")
			cfg.ProtoVersion = v
			cfg.NumConns = 1
			cfg.Timeout, cfg.ConnectTimeout = 60*time.Second, 60*time.Second
			if comp {
				cfg.Compressor = gocql.SnappyCompressor{}
			}
			s, err := gocql.VerifOpenSession(cfg, ns.dial)
			hs := ns.take()
			frames += int64(len(hs))
			sessions++
			r.Case("live-session:"+cfgName, err == nil)
			replay := map[string]interface{}{"connection": cfgName, "ask": "session setup"}
			for _, g := range hs {
				if g.err != nil {
					bad(r, fmt.Sprintf("handshake:%s:v%d:malformed:%s", frame.OpName(g.header.Op), v, errClass(g.err)),
						fmt.Sprintf("%s: %v | frame %s", cfgName, g.err, hexTrunc(g.raw)), replay)
				}
			}
			if err != nil {
				bad(r, "session:setup-failed", fmt.Sprintf("%s: %v", cfgName, err), replay)
				continue
			}
			outcomes["session-ok"]++
			tgt := &liveTarget{
				s:         s,
				execQuery: func(q *gocql.Query) error { return q.Exec() },
				execBatch: func(b *gocql.Batch) error { return s.ExecuteBatch(b) },
				take:      ns.take,
			}
			c, f := runLiveAsks(r, cfgName, v, "", tgt, sessionAsks(v), outcomes)
			calls += c
			frames += f
			s.Close()
		}
	}
	return
}
