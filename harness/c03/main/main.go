// Worker of check C03: request frames are exactly what the CQL protocol specifies.
//
// Every case is one "ask" (a logical request + envelope); it is built by gocql's
// real frame builder (through harness/c03/pkg/access.go), the bytes are parsed by
// the independent reference codec verif/engine/refcql/frame, and the decoded
// logical request is compared with the ask. See NOTES.md.
package main

import (
	"bytes"
	"encoding/hex"
	"encoding/json"
	"fmt"
	"hash/fnv"
	"os"
	"runtime"
	"sort"
	"strings"
	"sync"
	"time"

	"github.com/gocql/gocql"
	"github.com/golang/snappy"
	"verif/engine/refcql/frame"
	"verif/engine/report"
)

// ---------------------------------------------------------------------------
// The ask: a neutral description of what the application/driver wants to send.

const (
	kStartup = iota
	kOptions
	kAuthResponse
	kRegister
	kQuery
	kPrepare
	kExecute
	kBatch
	nKinds
)

var kindNames = [...]string{"STARTUP", "OPTIONS", "AUTH_RESPONSE", "REGISTER", "QUERY", "PREPARE", "EXECUTE", "BATCH"}
var kindOps = [...]byte{frame.OpStartup, frame.OpOptions, frame.OpAuthResponse, frame.OpRegister, frame.OpQuery, frame.OpPrepare, frame.OpExecute, frame.OpBatch}

const (
	vNormal = iota
	vNull
	vUnset
	vEmpty
)

const (
	modeNone       = iota // no values
	modePositional        // values without names
	modeNamed             // every value named
	modeMixedFirst        // first value named, the others not  (inexpressible in every version)
	modeMixedLast         // first value positional, the last named (inexpressible)
)

const (
	tsOff = iota
	tsFixed
	tsNegative
	tsNow // DefaultTimestamp(true) without an explicit value: the driver uses the wall clock
)

const (
	fixedTS    = int64(1234567890123456)
	negativeTS = int64(-9223372036854775807)
)

type valAsk struct {
	Name string `json:"name,omitempty"`
	Kind int    `json:"kind"`
}

type paramAsk struct {
	Cons     uint16 `json:"cons"`
	SkipMeta bool   `json:"skip_meta,omitempty"`
	Mode     int    `json:"value_mode"`
	NVals    int    `json:"nvals"`
	// ValKinds: explicit kinds for NVals<=4; for larger counts value i has kind (i+Rot)%4
	ValKinds []int  `json:"val_kinds,omitempty"`
	Rot      int    `json:"rot,omitempty"`
	PageSize int    `json:"page_size,omitempty"`
	Paging   int    `json:"paging_len,omitempty"` // length of the paging state, 0 = none
	Serial   uint16 `json:"serial,omitempty"`
	TS       int    `json:"ts_mode,omitempty"`
	Keyspace string `json:"keyspace,omitempty"`
}

type entryAsk struct {
	Prepared bool  `json:"prepared"`
	Mode     int   `json:"value_mode"`
	NVals    int   `json:"nvals"`
	ValKinds []int `json:"val_kinds,omitempty"`
}

type ask struct {
	Version int    `json:"version"`
	Kind    int    `json:"kind"`
	KindStr string `json:"kind_name"`
	Stream  int    `json:"stream"`
	Comp    bool   `json:"snappy,omitempty"`
	Tracing bool   `json:"tracing,omitempty"`
	Payload int    `json:"payload_entries,omitempty"` // plNone (nil map), plOne, plTwo (second entry has a null value), plEmpty (non-nil map without entries)
	Body    int    `json:"body_variant,omitempty"`    // STARTUP / AUTH_RESPONSE / REGISTER / PREPARE / statement variant
	PrepKS  string `json:"prepare_keyspace,omitempty"`
	IDLen   int    `json:"id_len,omitempty"`
	P       paramAsk
	BType   byte       `json:"batch_type,omitempty"`
	Entries []entryAsk `json:"entries,omitempty"`
	// NEntries > len(Entries): entry i is Entries[i%len(Entries)]
	NEntries int `json:"nentries,omitempty"`
	// live path only: explicit statement texts; prepared entries then use the id the scripted node hands out
	Stmt       string   `json:"stmt,omitempty"`
	EntryStmts []string `json:"entry_stmts,omitempty"`
}

func (a *ask) statement() string {
	if a.Stmt != "" {
		return a.Stmt
	}
	return statementVariant(a.Body)
}

func (a *ask) entryID(i int) []byte {
	if a.EntryStmts != nil {
		return preparedID(16)
	}
	return preparedID(2 + i%15)
}

func (a *ask) entryStmt(i int) string {
	if a.EntryStmts != nil {
		return a.EntryStmts[i%len(a.EntryStmts)]
	}
	return statementVariant(i % 3)
}

func (a *ask) key() [8]byte {
	h := fnv.New64a()
	b, _ := json.Marshal(a)
	h.Write(b)
	var k [8]byte
	copy(k[:], h.Sum(nil))
	return k
}

func valueBytes(i int, kind int) []byte {
	switch kind {
	case vNormal:
		return []byte{0xA0 | byte(i&0x0f), byte(i >> 8), byte(i)}
	case vEmpty:
		return []byte{}
	}
	return nil
}

func valueName(i int) string { return fmt.Sprintf("n%d", i) }

func statementVariant(i int) string {
	switch i % 4 {
	case 0:
		return "SELECT a, b FROM ks.t WHERE k = ?"
	case 1:
		return ""
	case 2:
		return "INSERT INTO t (k, v) VALUES (?, 'ünï©ode ✓')"
	}
	return strings.Repeat("SELECT * FROM system.local; ", 2500) // 70000 bytes: longer than a [string] could hold
}

var startupVariants = [][]frame.KV{
	{{"CQL_VERSION", "3.0.0"}},
	{{"CQL_VERSION", "3.0.0"}, {"COMPRESSION", "snappy"}},
	{{"CQL_VERSION", "3.4.5"}, {"DRIVER_NAME", "gocql"}, {"DRIVER_VERSION", "v1.2.3"}},
	{{"CQL_VERSION", ""}, {"COMPRESSION", "lz4"}, {"DRIVER_NAME", "x"}, {"DRIVER_VERSION", ""}},
}

func authVariant(i int) []byte {
	switch i % 5 {
	case 0:
		return []byte("\x00cassandra\x00cassandra")
	case 1:
		return nil
	case 2:
		return []byte{}
	case 3:
		return []byte{0xff}
	}
	return bytes.Repeat([]byte{0x5a}, 70000)
}

var registerVariants = [][]string{
	{"TOPOLOGY_CHANGE", "STATUS_CHANGE", "SCHEMA_CHANGE"},
	{},
	{"STATUS_CHANGE"},
	nil,
}

func preparedID(n int) []byte {
	id := make([]byte, n)
	for i := range id {
		id[i] = byte(0xC0 + i*7)
	}
	return id
}

func pagingState(n int) []byte {
	if n == 0 {
		return nil
	}
	p := make([]byte, n)
	for i := range p {
		p[i] = byte(i*13 + 1)
	}
	return p
}

// The custom-payload dimension: what the application hands to the driver.
const (
	plNone  = 0 // nil map
	plOne   = 1 // one entry
	plTwo   = 2 // two entries, one with an empty and one with a null value
	plEmpty = 3 // a non-nil map without entries (e.g. built by a wrapper that had nothing to add)
)

var allPayloads = []int{plNone, plOne, plTwo, plEmpty}

func payloadMap(n int) map[string][]byte {
	switch n {
	case plOne:
		return map[string][]byte{"k1": {1, 2, 3}}
	case plTwo:
		return map[string][]byte{"k1": {}, "other-key": nil}
	case plEmpty:
		return map[string][]byte{}
	}
	return nil
}

func payloadKB(n int) []frame.KB {
	switch n {
	case plOne:
		return []frame.KB{{Key: "k1", Value: []byte{1, 2, 3}}}
	case plTwo:
		return []frame.KB{{Key: "k1", Value: []byte{}}, {Key: "other-key", Value: nil}}
	}
	return nil
}

func (p *paramAsk) valKind(i int) int {
	if i < len(p.ValKinds) {
		return p.ValKinds[i]
	}
	return (i + p.Rot) % 4
}

func valNamed(mode, i, n int) (string, bool) {
	switch mode {
	case modeNamed:
		return valueName(i), true
	case modeMixedFirst:
		if i == 0 {
			return valueName(i), true
		}
	case modeMixedLast:
		if i == n-1 && i > 0 {
			return valueName(i), true
		}
	}
	return "", false
}

func buildVerifValues(mode, n int, kindOf func(int) int) []gocql.VerifValue {
	if mode == modeNone || n == 0 {
		if mode == modeNone {
			return nil
		}
		return []gocql.VerifValue{}
	}
	out := make([]gocql.VerifValue, n)
	for i := range out {
		k := kindOf(i)
		out[i].Value = valueBytes(i, k)
		out[i].Unset = k == vUnset
		if name, ok := valNamed(mode, i, n); ok {
			out[i].Name = name
		}
	}
	return out
}

func (a *ask) toVerif() *gocql.VerifRequest {
	r := &gocql.VerifRequest{Kind: a.Kind}
	switch a.Kind {
	case kStartup:
		r.StartupOpts = map[string]string{}
		for _, kv := range startupVariants[a.Body%len(startupVariants)] {
			r.StartupOpts[kv.Key] = kv.Value
		}
	case kAuthResponse:
		r.AuthData = authVariant(a.Body)
	case kRegister:
		r.Events = registerVariants[a.Body%len(registerVariants)]
	case kPrepare:
		r.Statement = a.statement()
		r.Keyspace = a.PrepKS
	case kQuery:
		r.Statement = a.statement()
	case kExecute:
		r.PreparedID = preparedID(a.IDLen)
	}
	if a.Kind == kQuery || a.Kind == kExecute || a.Kind == kBatch {
		p := &a.P
		r.Params = gocql.VerifParams{Consistency: p.Cons, SkipMeta: p.SkipMeta, PageSize: p.PageSize, PagingState: pagingState(p.Paging),
			SerialConsistency: p.Serial, Keyspace: p.Keyspace}
		switch p.TS {
		case tsFixed:
			r.Params.DefaultTimestamp, r.Params.DefaultTimestampValue = true, fixedTS
		case tsNegative:
			r.Params.DefaultTimestamp, r.Params.DefaultTimestampValue = true, negativeTS
		case tsNow:
			r.Params.DefaultTimestamp = true
		}
		if a.Kind != kBatch {
			r.Params.Values = buildVerifValues(p.Mode, p.NVals, p.valKind)
		}
	}
	if a.Kind == kBatch {
		r.BatchType = a.BType
		r.Entries = make([]gocql.VerifBatchEntry, a.NEntries)
		for i := range r.Entries {
			e := a.Entries[i%len(a.Entries)]
			if e.Prepared {
				r.Entries[i].PreparedID = a.entryID(i)
			} else {
				r.Entries[i].Statement = a.entryStmt(i)
			}
			ee := e
			r.Entries[i].Values = buildVerifValues(e.Mode, e.NVals, func(j int) int {
				if j < len(ee.ValKinds) {
					return ee.ValKinds[j]
				}
				return j % 4
			})
		}
	}
	if a.Payload > 0 {
		r.CustomPayload = payloadMap(a.Payload)
	}
	return r
}

// ---------------------------------------------------------------------------
// Expectation: what the specification says must be on the wire for the ask, and
// which asked features the version cannot express.

type expectation struct {
	msg           interface{} // frame.* request message with everything expressible filled in
	inexpr        []string    // asked features the version cannot express
	ignoreNames   bool        // names are "don't care" (names < v3, mixed names)
	anyKindAt     map[int]bool
	anyKindEntry  map[[2]int]bool
	tsAny         bool // timestamp must be present, value is the wall clock
	expectPayload []frame.KB
	// payloadEmpty: a non-nil custom payload map without entries was asked. There is nothing to carry:
	// the frame must either have no custom-payload flag and no [bytes map], or (v4+) the flag and a
	// [bytes map] with n = 0. The flag without a map, or a map without the flag, is malformed.
	payloadEmpty bool
}

// headerFlags returns the header flags the frame of the ask must carry and the bits that are "either way".
func (ex *expectation) headerFlags(a *ask) (want, dontCare byte) {
	dontCare = frame.FlagCompression
	if a.Tracing {
		want |= frame.FlagTracing
	}
	if a.Version >= 5 {
		want |= frame.FlagBeta
	}
	if ex.expectPayload != nil {
		want |= frame.FlagCustomPayload
	}
	if ex.payloadEmpty && a.Version >= 4 {
		dontCare |= frame.FlagCustomPayload
	}
	return want, dontCare
}

// cmpPayload compares the decoded custom payload with the ask ("" = equal).
func (ex *expectation) cmpPayload(req *frame.Request) string {
	if ex.payloadEmpty {
		if len(req.CustomPayload) != 0 {
			return fmt.Sprintf("payload %v, asked an empty one", req.CustomPayload)
		}
		return ""
	}
	if (ex.expectPayload != nil) != req.HasCustomPayload || !sameKBSet(req.CustomPayload, ex.expectPayload) {
		return fmt.Sprintf("payload %v, asked %v", req.CustomPayload, ex.expectPayload)
	}
	return ""
}

func expectValues(v int, mode, n int, kindOf func(int) int, ex *expectation, mark func(i int)) (vals []frame.Value, named bool) {
	if mode == modeNone || n == 0 {
		return nil, false
	}
	vals = make([]frame.Value, n)
	for i := range vals {
		k := kindOf(i)
		switch k {
		case vNormal, vEmpty:
			vals[i] = frame.Value{Kind: frame.ValNormal, Bytes: valueBytes(i, k)}
		case vNull:
			vals[i] = frame.Value{Kind: frame.ValNull}
		case vUnset:
			if v >= 4 {
				vals[i] = frame.Value{Kind: frame.ValUnset}
			} else {
				addInexpr(ex, "unset<v4")
				vals[i] = frame.Value{Kind: frame.ValNull}
				mark(i)
			}
		}
		if name, ok := valNamed(mode, i, n); ok {
			vals[i].Name = name
		}
	}
	switch mode {
	case modeNamed:
		if v >= 3 {
			named = true
		} else {
			addInexpr(ex, "names<v3")
			ex.ignoreNames = true
		}
	case modeMixedFirst, modeMixedLast:
		if n >= 2 {
			addInexpr(ex, "mixed-named-and-positional")
			ex.ignoreNames = true
		} else if mode == modeMixedFirst {
			if v >= 3 {
				named = true
			} else {
				addInexpr(ex, "names<v3")
				ex.ignoreNames = true
			}
		}
	}
	return vals, named
}

func addInexpr(ex *expectation, f string) {
	for _, s := range ex.inexpr {
		if s == f {
			return
		}
	}
	ex.inexpr = append(ex.inexpr, f)
}

func expectParams(v int, kind int, p *paramAsk, ex *expectation) frame.QueryParams {
	q := frame.QueryParams{Consistency: p.Cons}
	if v == 1 && kind == kQuery {
		if p.Mode != modeNone && p.NVals > 0 {
			addInexpr(ex, "values-in-v1-QUERY")
		}
	} else {
		q.Values, q.Named = expectValues(v, p.Mode, p.NVals, p.valKind, ex, func(i int) {
			if ex.anyKindAt == nil {
				ex.anyKindAt = map[int]bool{}
			}
			ex.anyKindAt[i] = true
		})
	}
	feature := func(asked bool, minV int, name string) bool {
		if !asked {
			return false
		}
		if v >= minV {
			return true
		}
		addInexpr(ex, fmt.Sprintf("%s<v%d", name, minV))
		return false
	}
	if feature(p.SkipMeta, 2, "skip-metadata") {
		q.SkipMetadata = true
	}
	if feature(p.PageSize > 0, 2, "page-size") {
		n := int32(p.PageSize)
		q.PageSize = &n
	}
	if feature(p.Paging > 0, 2, "paging-state") {
		q.HasPagingState = true
		q.PagingState = pagingState(p.Paging)
	}
	if feature(p.Serial != 0, 2, "serial-consistency") {
		s := p.Serial
		q.SerialConsistency = &s
	}
	if feature(p.TS != tsOff, 3, "default-timestamp") {
		var t int64
		switch p.TS {
		case tsFixed:
			t = fixedTS
		case tsNegative:
			t = negativeTS
		case tsNow:
			ex.tsAny = true
		}
		q.Timestamp = &t
	}
	if feature(p.Keyspace != "", 5, "keyspace") {
		k := p.Keyspace
		q.Keyspace = &k
	}
	return q
}

func expect(a *ask) *expectation {
	ex := &expectation{}
	v := a.Version
	switch a.Kind {
	case kStartup:
		ex.msg = &frame.Startup{Options: startupVariants[a.Body%len(startupVariants)]}
	case kOptions:
		ex.msg = &frame.Options{}
	case kAuthResponse:
		ex.msg = &frame.AuthResponse{Token: authVariant(a.Body)}
	case kRegister:
		ev := registerVariants[a.Body%len(registerVariants)]
		ex.msg = &frame.Register{Events: append([]string{}, ev...)}
	case kPrepare:
		m := &frame.Prepare{Statement: a.statement()}
		if v >= 5 {
			m.HasFlags = true
		}
		if a.PrepKS != "" {
			if v >= 5 {
				ks := a.PrepKS
				m.Keyspace, m.Flags = &ks, 1
			} else {
				addInexpr(ex, "keyspace<v5")
			}
		}
		ex.msg = m
	case kQuery:
		ex.msg = &frame.Query{Statement: a.statement(), Params: expectParams(v, kQuery, &a.P, ex)}
	case kExecute:
		ex.msg = &frame.Execute{ID: preparedID(a.IDLen), Params: expectParams(v, kExecute, &a.P, ex)}
	case kBatch:
		m := &frame.Batch{Type: a.BType, Consistency: a.P.Cons, HasFlags: v >= 3}
		for i := 0; i < a.NEntries; i++ {
			e := a.Entries[i%len(a.Entries)]
			be := frame.BatchEntry{Prepared: e.Prepared}
			if e.Prepared {
				be.ID = a.entryID(i)
			} else {
				be.Statement = a.entryStmt(i)
			}
			ee, ii := e, i
			vals, named := expectValues(v, e.Mode, e.NVals, func(j int) int {
				if j < len(ee.ValKinds) {
					return ee.ValKinds[j]
				}
				return j % 4
			}, ex, func(j int) {
				if ex.anyKindEntry == nil {
					ex.anyKindEntry = map[[2]int]bool{}
				}
				ex.anyKindEntry[[2]int{ii, j}] = true
			})
			if named || (e.Mode != modeNone && e.Mode != modePositional && e.NVals > 0) {
				// names in BATCH cannot be expressed in any version (CASSANDRA-10246)
				addInexpr(ex, "names-in-BATCH")
				ex.ignoreNames = true
			}
			if vals == nil {
				vals = []frame.Value{}
			}
			be.Values = vals
			m.Entries = append(m.Entries, be)
		}
		if m.Entries == nil {
			m.Entries = []frame.BatchEntry{}
		}
		if a.P.Serial != 0 {
			if v >= 3 {
				s := a.P.Serial
				m.SerialConsistency = &s
			} else {
				addInexpr(ex, "batch-serial-consistency<v3")
			}
		}
		if a.P.TS != tsOff {
			if v >= 3 {
				var t int64
				switch a.P.TS {
				case tsFixed:
					t = fixedTS
				case tsNegative:
					t = negativeTS
				case tsNow:
					ex.tsAny = true
				}
				m.Timestamp = &t
			} else {
				addInexpr(ex, "batch-default-timestamp<v3")
			}
		}
		ex.msg = m
	}
	switch {
	case a.Payload == plEmpty:
		ex.payloadEmpty = true
		if v < 4 {
			// custom payloads do not exist below v4: a driver may refuse any non-nil map; if it sends, the
			// frame must not carry the (undefined) flag nor a map
			addInexpr(ex, "empty-custom-payload<v4")
		}
	case a.Payload > 0:
		if v >= 4 {
			ex.expectPayload = payloadKB(a.Payload)
		} else {
			addInexpr(ex, "custom-payload<v4")
		}
	}
	if a.Kind == kBatch && a.NEntries > maxCount {
		// the statement count is a [short]: only the public path asks this (see live.go)
		addInexpr(ex, "batch-statements>65535")
	}
	return ex
}

// maxCount is the largest count a [short] can carry.
const maxCount = 65535

// ---------------------------------------------------------------------------
// Comparison of the decoded request with the expectation.

func cmpValues(where string, got, exp []frame.Value, gotNamed, expNamed bool, ex *expectation, anyKind func(i int) bool) string {
	if len(got) != len(exp) {
		return fmt.Sprintf("%s: %d values decoded, %d asked", where, len(got), len(exp))
	}
	if !ex.ignoreNames && gotNamed != expNamed {
		return fmt.Sprintf("%s: names flag %v, asked %v", where, gotNamed, expNamed)
	}
	for i := range exp {
		g, e := got[i], exp[i]
		if !ex.ignoreNames && expNamed && g.Name != e.Name {
			return fmt.Sprintf("%s: value %d name %q, asked %q", where, i, g.Name, e.Name)
		}
		if anyKind != nil && anyKind(i) {
			continue
		}
		if g.Kind != e.Kind {
			return fmt.Sprintf("%s: value %d is %v, asked %v", where, i, g.Kind, e.Kind)
		}
		if e.Kind == frame.ValNormal && !bytes.Equal(g.Bytes, e.Bytes) {
			return fmt.Sprintf("%s: value %d bytes %x, asked %x", where, i, g.Bytes, e.Bytes)
		}
	}
	return ""
}

func cmpParams(got, exp *frame.QueryParams, ex *expectation) (field, detail string) {
	if got.Consistency != exp.Consistency {
		return "consistency", fmt.Sprintf("consistency 0x%04x, asked 0x%04x", got.Consistency, exp.Consistency)
	}
	if d := cmpValues("params", got.Values, exp.Values, got.Named, exp.Named, ex, func(i int) bool { return ex.anyKindAt[i] }); d != "" {
		return "values", d
	}
	if got.SkipMetadata != exp.SkipMetadata {
		return "skip_metadata", fmt.Sprintf("skip_metadata %v, asked %v", got.SkipMetadata, exp.SkipMetadata)
	}
	if (got.PageSize == nil) != (exp.PageSize == nil) || (got.PageSize != nil && *got.PageSize != *exp.PageSize) {
		return "page_size", fmt.Sprintf("page size %v, asked %v", pi32(got.PageSize), pi32(exp.PageSize))
	}
	if got.HasPagingState != exp.HasPagingState || !bytes.Equal(got.PagingState, exp.PagingState) || (got.HasPagingState && got.PagingState == nil) {
		return "paging_state", fmt.Sprintf("paging state present=%v %x, asked present=%v %x", got.HasPagingState, got.PagingState, exp.HasPagingState, exp.PagingState)
	}
	if (got.SerialConsistency == nil) != (exp.SerialConsistency == nil) || (got.SerialConsistency != nil && *got.SerialConsistency != *exp.SerialConsistency) {
		return "serial_consistency", fmt.Sprintf("serial consistency %v, asked %v", pu16(got.SerialConsistency), pu16(exp.SerialConsistency))
	}
	if d := cmpTS(got.Timestamp, exp.Timestamp, ex); d != "" {
		return "timestamp", d
	}
	if (got.Keyspace == nil) != (exp.Keyspace == nil) || (got.Keyspace != nil && *got.Keyspace != *exp.Keyspace) {
		return "keyspace", fmt.Sprintf("keyspace %v, asked %v", ps(got.Keyspace), ps(exp.Keyspace))
	}
	return "", ""
}

func cmpTS(got, exp *int64, ex *expectation) string {
	if (got == nil) != (exp == nil) {
		return fmt.Sprintf("timestamp %v, asked %v", pi64(got), pi64(exp))
	}
	if got != nil && !ex.tsAny && *got != *exp {
		return fmt.Sprintf("timestamp %d, asked %d", *got, *exp)
	}
	return ""
}

func pi32(p *int32) string {
	if p == nil {
		return "absent"
	}
	return fmt.Sprint(*p)
}
func pi64(p *int64) string {
	if p == nil {
		return "absent"
	}
	return fmt.Sprint(*p)
}
func pu16(p *uint16) string {
	if p == nil {
		return "absent"
	}
	return fmt.Sprintf("0x%04x", *p)
}
func ps(p *string) string {
	if p == nil {
		return "absent"
	}
	return fmt.Sprintf("%q", *p)
}

func sameKVSet(a, b []frame.KV) bool {
	if len(a) != len(b) {
		return false
	}
	m := map[string]string{}
	for _, e := range a {
		m[e.Key] = e.Value
	}
	if len(m) != len(a) {
		return false
	}
	for _, e := range b {
		if v, ok := m[e.Key]; !ok || v != e.Value {
			return false
		}
	}
	return true
}

func sameKBSet(a, b []frame.KB) bool {
	if len(a) != len(b) {
		return false
	}
	type val struct {
		b   string
		nul bool
	}
	m := map[string]val{}
	for _, e := range a {
		m[e.Key] = val{string(e.Value), e.Value == nil}
	}
	if len(m) != len(a) {
		return false
	}
	for _, e := range b {
		if v, ok := m[e.Key]; !ok || v.b != string(e.Value) || v.nul != (e.Value == nil) {
			return false
		}
	}
	return true
}

// cmpMsg returns the first differing field ("" if none).
func cmpMsg(got, exp interface{}, ex *expectation) (field, detail string) {
	switch e := exp.(type) {
	case *frame.Startup:
		g, ok := got.(*frame.Startup)
		if !ok {
			return "message-type", fmt.Sprintf("%T", got)
		}
		if !sameKVSet(g.Options, e.Options) {
			return "startup.options", fmt.Sprintf("options %v, asked %v", g.Options, e.Options)
		}
	case *frame.Options:
		if _, ok := got.(*frame.Options); !ok {
			return "message-type", fmt.Sprintf("%T", got)
		}
	case *frame.AuthResponse:
		g, ok := got.(*frame.AuthResponse)
		if !ok {
			return "message-type", fmt.Sprintf("%T", got)
		}
		if (g.Token == nil) != (e.Token == nil) || !bytes.Equal(g.Token, e.Token) {
			return "auth.token", fmt.Sprintf("token null=%v len %d, asked null=%v len %d", g.Token == nil, len(g.Token), e.Token == nil, len(e.Token))
		}
	case *frame.Register:
		g, ok := got.(*frame.Register)
		if !ok {
			return "message-type", fmt.Sprintf("%T", got)
		}
		if len(g.Events) != len(e.Events) {
			return "register.events", fmt.Sprintf("events %v, asked %v", g.Events, e.Events)
		}
		for i := range e.Events {
			if g.Events[i] != e.Events[i] {
				return "register.events", fmt.Sprintf("events %v, asked %v", g.Events, e.Events)
			}
		}
	case *frame.Prepare:
		g, ok := got.(*frame.Prepare)
		if !ok {
			return "message-type", fmt.Sprintf("%T", got)
		}
		if g.Statement != e.Statement {
			return "statement", fmt.Sprintf("statement of %d bytes, asked %d bytes", len(g.Statement), len(e.Statement))
		}
		if g.HasFlags != e.HasFlags || g.Flags != e.Flags {
			return "prepare.flags", fmt.Sprintf("flags present=%v 0x%x, expected present=%v 0x%x", g.HasFlags, g.Flags, e.HasFlags, e.Flags)
		}
		if (g.Keyspace == nil) != (e.Keyspace == nil) || (g.Keyspace != nil && *g.Keyspace != *e.Keyspace) {
			return "keyspace", fmt.Sprintf("keyspace %v, asked %v", ps(g.Keyspace), ps(e.Keyspace))
		}
	case *frame.Query:
		g, ok := got.(*frame.Query)
		if !ok {
			return "message-type", fmt.Sprintf("%T", got)
		}
		if g.Statement != e.Statement {
			return "statement", fmt.Sprintf("statement of %d bytes, asked %d bytes", len(g.Statement), len(e.Statement))
		}
		return cmpParams(&g.Params, &e.Params, ex)
	case *frame.Execute:
		g, ok := got.(*frame.Execute)
		if !ok {
			return "message-type", fmt.Sprintf("%T", got)
		}
		if !bytes.Equal(g.ID, e.ID) {
			return "prepared_id", fmt.Sprintf("id %x, asked %x", g.ID, e.ID)
		}
		return cmpParams(&g.Params, &e.Params, ex)
	case *frame.Batch:
		g, ok := got.(*frame.Batch)
		if !ok {
			return "message-type", fmt.Sprintf("%T", got)
		}
		if g.Type != e.Type {
			return "batch.type", fmt.Sprintf("type %d, asked %d", g.Type, e.Type)
		}
		if len(g.Entries) != len(e.Entries) {
			return "batch.entries", fmt.Sprintf("%d entries, asked %d", len(g.Entries), len(e.Entries))
		}
		for i := range e.Entries {
			ge, ee := &g.Entries[i], &e.Entries[i]
			if ge.Prepared != ee.Prepared || ge.Statement != ee.Statement || !bytes.Equal(ge.ID, ee.ID) {
				return "batch.entry", fmt.Sprintf("entry %d: prepared=%v stmt %d bytes id %x, asked prepared=%v stmt %d bytes id %x",
					i, ge.Prepared, len(ge.Statement), ge.ID, ee.Prepared, len(ee.Statement), ee.ID)
			}
			ii := i
			if d := cmpValues(fmt.Sprintf("entry %d", i), ge.Values, ee.Values, false, false, ex, func(j int) bool { return ex.anyKindEntry[[2]int{ii, j}] }); d != "" {
				return "batch.values", d
			}
		}
		if g.Consistency != e.Consistency {
			return "consistency", fmt.Sprintf("consistency 0x%04x, asked 0x%04x", g.Consistency, e.Consistency)
		}
		if g.HasFlags != e.HasFlags {
			return "batch.flags", fmt.Sprintf("flags present=%v, expected %v", g.HasFlags, e.HasFlags)
		}
		if (g.SerialConsistency == nil) != (e.SerialConsistency == nil) || (g.SerialConsistency != nil && *g.SerialConsistency != *e.SerialConsistency) {
			return "serial_consistency", fmt.Sprintf("serial consistency %v, asked %v", pu16(g.SerialConsistency), pu16(e.SerialConsistency))
		}
		if d := cmpTS(g.Timestamp, e.Timestamp, ex); d != "" {
			return "timestamp", d
		}
		if g.Keyspace != nil {
			return "keyspace", "keyspace present, none asked"
		}
	default:
		return "internal", fmt.Sprintf("no comparison for %T", exp)
	}
	return "", ""
}

// ---------------------------------------------------------------------------
// One evaluation.

type outcome struct {
	class      string // "frame", "error", "panic"
	viol       string // violation key ("" = none)
	detail     string
	nontriv    bool
	compressed bool
}

var digits = strings.NewReplacer("0", "", "1", "", "2", "", "3", "", "4", "", "5", "", "6", "", "7", "", "8", "", "9", "")

// errClass turns a reference-decoder error into a stable slug for finding keys.
func errClass(err error) string {
	s := err.Error()
	switch {
	case strings.Contains(s, "is not defined in protocol v"):
		return "opcode-not-defined-in-version"
	case strings.Contains(s, "trailing bytes"):
		return "trailing-bytes"
	case strings.Contains(s, "body too short"):
		return "body-too-short"
	case strings.Contains(s, "flags") && strings.Contains(s, "not defined"):
		return "undefined-flag-bits"
	case strings.Contains(s, "USE_BETA"):
		return "v5-without-beta-flag"
	}
	s = digits.Replace(s)
	if len(s) > 60 {
		s = s[:60]
	}
	return strings.Join(strings.FieldsFunc(s, func(r rune) bool {
		return !(r >= 'a' && r <= 'z' || r >= 'A' && r <= 'Z' || r == '_' || r == '-')
	}), "-")
}

func evaluate(a *ask) outcome {
	ex := expect(a)
	var comp gocql.Compressor
	if a.Comp {
		comp = gocql.SnappyCompressor{}
	}
	kn := kindNames[a.Kind]
	raw, err, pan := gocql.VerifBuild(byte(a.Version), comp, a.Tracing, a.Stream, a.toVerif())
	inexprKey := strings.Join(ex.inexpr, "+")
	if pan != nil {
		if len(ex.inexpr) > 0 {
			return outcome{class: "panic"}
		}
		return outcome{class: "panic", viol: kn + ":builder-panic-on-expressible-request", detail: fmt.Sprintf("panic: %v", pan)}
	}
	if err != nil {
		if len(ex.inexpr) > 0 {
			return outcome{class: "error"}
		}
		return outcome{class: "error", viol: kn + ":builder-error-on-expressible-request", detail: "error: " + err.Error()}
	}
	suffix := ""
	if inexprKey != "" {
		suffix = ":asked-inexpressible:" + inexprKey
	}
	bad := func(cat, detail string) outcome {
		return outcome{class: "frame", viol: kn + ":" + cat + suffix, detail: detail + " | frame " + hexTrunc(raw)}
	}
	h, body, err := frame.SplitFrame(raw)
	if err != nil {
		if _, _, e2 := frame.ParseHeader(raw); e2 == nil {
			return bad("header.length", err.Error())
		}
		return bad("header", err.Error())
	}
	if h.Version != a.Version || h.Response {
		return bad("header.version", fmt.Sprintf("version byte v%d response=%v, negotiated v%d", h.Version, h.Response, a.Version))
	}
	if h.Stream != a.Stream {
		return bad("header.stream", fmt.Sprintf("stream %d, asked %d", h.Stream, a.Stream))
	}
	if h.Op != kindOps[a.Kind] {
		return bad("header.opcode", fmt.Sprintf("opcode %s", frame.OpName(h.Op)))
	}
	// flags
	wantFlags, dontCare := ex.headerFlags(a)
	if got := h.Flags &^ dontCare; got != wantFlags {
		return bad("header.flags", fmt.Sprintf("flags 0x%02x, expected 0x%02x (either way: 0x%02x)", h.Flags, wantFlags, dontCare))
	}
	compressed := h.Flags&frame.FlagCompression != 0
	if compressed {
		if !a.Comp {
			return bad("header.flags.compression", "compression flag without a negotiated compressor")
		}
		plain, err := snappy.Decode(nil, body)
		if err != nil {
			return bad("decompress", err.Error())
		}
		body = plain
	}
	req, err := frame.DecodeRequestBody(h, body)
	if err != nil {
		return bad("malformed:"+errClass(err), err.Error())
	}
	if req.Tracing != a.Tracing {
		return bad("field:tracing", "tracing flag")
	}
	if d := ex.cmpPayload(req); d != "" {
		return bad("field:custom_payload", d)
	}
	if f, d := cmpMsg(req.Msg, ex.msg, ex); f != "" {
		return bad("field:"+f, d)
	}
	// with compression: the body must decompress to the uncompressed build (byte for
	// byte where the build is deterministic: no map with 2+ entries, no wall clock)
	if compressed && !ex.tsAny && a.Kind != kStartup && a.Payload != plTwo {
		raw2, err2, pan2 := gocql.VerifBuild(byte(a.Version), nil, a.Tracing, a.Stream, a.toVerif())
		if err2 != nil || pan2 != nil {
			return bad("uncompressed-build-differs", fmt.Sprintf("uncompressed build failed: %v %v", err2, pan2))
		}
		_, body2, err := frame.SplitFrame(raw2)
		if err != nil || !bytes.Equal(body2, body) {
			return bad("uncompressed-build-differs", "decompressed body differs from the build without a compressor")
		}
	}
	return outcome{class: "frame", nontriv: true, compressed: compressed}
}

func hexTrunc(b []byte) string {
	if len(b) > 160 {
		return hex.EncodeToString(b[:160]) + fmt.Sprintf("...(%d bytes)", len(b))
	}
	return hex.EncodeToString(b)
}

// ---------------------------------------------------------------------------
// Enumeration.

func streamsOf(v int) []int {
	if v >= 3 {
		return []int{1, 127, 128, 32767}
	}
	return []int{1, 127}
}

func maxStream(v int) int {
	if v >= 3 {
		return 32767
	}
	return 127
}

var allCons = []uint16{0, 1, 2, 3, 4, 5, 6, 7, 8, 9, 10}

// valueShapes: every (mode, count, kinds) for counts 0,1,2 and the mixed shapes.
func valueShapes() []paramAsk {
	out := []paramAsk{{Mode: modeNone}}
	for _, mode := range []int{modePositional, modeNamed} {
		out = append(out, paramAsk{Mode: mode, NVals: 0})
		for k := 0; k < 4; k++ {
			out = append(out, paramAsk{Mode: mode, NVals: 1, ValKinds: []int{k}})
		}
		for k := 0; k < 16; k++ {
			out = append(out, paramAsk{Mode: mode, NVals: 2, ValKinds: []int{k / 4, k % 4}})
		}
	}
	out = append(out, paramAsk{Mode: modeMixedFirst, NVals: 2, ValKinds: []int{vNormal, vNull}})
	out = append(out, paramAsk{Mode: modeMixedLast, NVals: 2, ValKinds: []int{vEmpty, vNormal}})
	return out
}

// smallParamSet toggles every optional parameter alone, all together, and the
// version-inexpressible ones.
func smallParamSet() []paramAsk {
	return []paramAsk{
		{Cons: 1},
		{Cons: 4, SkipMeta: true},
		{Cons: 6, PageSize: 5000},
		{Cons: 10, Paging: 1},
		{Cons: 0, Serial: 8},
		{Cons: 5, TS: tsFixed},
		{Cons: 2, Keyspace: "ks"},
		{Cons: 3, Mode: modePositional, NVals: 1, ValKinds: []int{vNormal}},
		{Cons: 7, Mode: modeNamed, NVals: 2, ValKinds: []int{vNull, vUnset}},
		{Cons: 9, Mode: modePositional, NVals: 2, ValKinds: []int{vEmpty, vUnset}, SkipMeta: true, PageSize: 1, Paging: 300, Serial: 9, TS: tsNegative, Keyspace: "Other_KS"},
		{Cons: 8, Mode: modeNamed, NVals: 1, ValKinds: []int{vNormal}, PageSize: 2147483647, Paging: 2, Serial: 8, TS: tsNow},
		{Cons: 1, Mode: modeMixedFirst, NVals: 2, ValKinds: []int{vNormal, vNormal}},
	}
}

func entryShapes() [][]entryAsk {
	var out [][]entryAsk
	out = append(out, nil) // 0 entries
	singles := []entryAsk{
		{Prepared: false, Mode: modeNone},
		{Prepared: true, Mode: modeNone},
		{Prepared: true, Mode: modePositional, NVals: 1, ValKinds: []int{vNormal}},
		{Prepared: true, Mode: modePositional, NVals: 1, ValKinds: []int{vNull}},
		{Prepared: true, Mode: modePositional, NVals: 1, ValKinds: []int{vUnset}},
		{Prepared: true, Mode: modePositional, NVals: 1, ValKinds: []int{vEmpty}},
		{Prepared: true, Mode: modePositional, NVals: 2, ValKinds: []int{vNormal, vNull}},
		{Prepared: true, Mode: modePositional, NVals: 2, ValKinds: []int{vUnset, vEmpty}},
		{Prepared: false, Mode: modePositional, NVals: 1, ValKinds: []int{vNormal}},
		{Prepared: false, Mode: modePositional, NVals: 2, ValKinds: []int{vEmpty, vUnset}},
		{Prepared: true, Mode: modeNamed, NVals: 1, ValKinds: []int{vNormal}},
		{Prepared: true, Mode: modeMixedLast, NVals: 2, ValKinds: []int{vNormal, vNormal}},
	}
	for _, s := range singles {
		out = append(out, []entryAsk{s})
	}
	for i := range singles {
		for j := range singles {
			out = append(out, []entryAsk{singles[i], singles[j]})
		}
	}
	return out
}

type generator func(emit func(a *ask))

func kindsOf(v int) []int {
	// AUTH_RESPONSE and BATCH do not exist in protocol v1: whether the driver ever
	// sends them is decided on the public path (guard probe / live handshake), not here.
	if v == 1 {
		return []int{kStartup, kOptions, kRegister, kQuery, kPrepare, kExecute}
	}
	return []int{kStartup, kOptions, kAuthResponse, kRegister, kQuery, kPrepare, kExecute, kBatch}
}

func payloadsOf(kind int) []int {
	switch kind {
	case kQuery, kPrepare, kExecute, kBatch:
		// the request kinds whose builder has a custom-payload field
		return allPayloads
	}
	return []int{plNone}
}

// smallBodies: the per-kind body variants crossed with every envelope.
func smallBodies(v, kind int) []ask {
	var out []ask
	switch kind {
	case kStartup:
		for i := range startupVariants {
			out = append(out, ask{Body: i})
		}
	case kOptions:
		out = append(out, ask{})
	case kAuthResponse:
		for i := 0; i < 5; i++ {
			out = append(out, ask{Body: i})
		}
	case kRegister:
		for i := range registerVariants {
			out = append(out, ask{Body: i})
		}
	case kPrepare:
		for i := 0; i < 4; i++ {
			out = append(out, ask{Body: i}, ask{Body: i, PrepKS: "ks1"})
		}
	case kQuery:
		for i, p := range smallParamSet() {
			out = append(out, ask{Body: i, P: p})
		}
	case kExecute:
		for i, p := range smallParamSet() {
			out = append(out, ask{IDLen: []int{16, 1, 32, 65535}[i%4], P: p})
		}
	case kBatch:
		shapes := entryShapes()
		i := 0
		for _, sh := range [][]entryAsk{shapes[0], shapes[1], shapes[3], shapes[5], shapes[9], shapes[11], shapes[12], shapes[13+2*12+7], shapes[13+8*12+4]} {
			for _, p := range []paramAsk{{Cons: 1}, {Cons: 6, Serial: 9}, {Cons: 4, TS: tsFixed}, {Cons: 10, Serial: 8, TS: tsNow}} {
				out = append(out, ask{BType: byte(i % 3), Entries: sh, NEntries: len(sh), P: p})
				i++
			}
		}
	}
	return out
}

func generators(thorough bool) []generator {
	var gens []generator

	// S1: the full stream-id range of every version for every kind (one small body each).
	for v := 1; v <= 5; v++ {
		for _, kind := range kindsOf(v) {
			v, kind := v, kind
			gens = append(gens, func(emit func(*ask)) {
				bodies := smallBodies(v, kind)
				for s := 0; s <= maxStream(v); s++ {
					a := bodies[s%len(bodies)]
					a.Version, a.Kind, a.Stream = v, kind, s
					a.Tracing = s%3 == 0
					emit(&a)
				}
			})
		}
	}

	// S2: envelope product x small bodies.
	for v := 1; v <= 5; v++ {
		for _, kind := range kindsOf(v) {
			v, kind := v, kind
			gens = append(gens, func(emit func(*ask)) {
				for _, s := range streamsOf(v) {
					for _, comp := range []bool{false, true} {
						for _, tr := range []bool{false, true} {
							for _, pl := range payloadsOf(kind) {
								for _, b := range smallBodies(v, kind) {
									a := b
									a.Version, a.Kind, a.Stream, a.Comp, a.Tracing, a.Payload = v, kind, s, comp, tr, pl
									emit(&a)
								}
							}
						}
					}
				}
			})
		}
	}

	// S3: the query-parameter product for QUERY and EXECUTE.
	type env struct {
		comp, tr bool
		pl       int
	}
	type dims struct {
		cons               []uint16 // 0xffff: cycle through all consistencies
		pageSizes, pagings []int
		serials            []uint16
		tss                []int
	}
	reduced := dims{[]uint16{0xffff}, []int{0, 5000}, []int{0, 1}, []uint16{0, 8}, []int{tsOff, tsFixed}}
	full := dims{allCons, []int{0, 1, 5000, 2147483647}, []int{0, 1, 300}, []uint16{0, 8, 9}, []int{tsOff, tsFixed, tsNegative, tsNow}}
	type s3 struct {
		e env
		d dims
	}
	// quick: the custom-payload dimension nil / empty non-nil / one entry crossed with the whole reduced product
	plan := []s3{{env{false, false, plNone}, reduced}, {env{false, false, plEmpty}, reduced}, {env{false, false, plOne}, reduced}}
	if thorough {
		plan = nil
		for _, c := range []bool{false, true} {
			for _, t := range []bool{false, true} {
				for _, p := range allPayloads {
					plan = append(plan, s3{env{c, t, p}, reduced})
				}
			}
		}
		plan = append(plan, s3{env{false, false, plNone}, full}, s3{env{true, false, plOne}, full}, s3{env{false, true, plTwo}, full}, s3{env{true, true, plTwo}, full},
			s3{env{false, false, plEmpty}, full})
	}
	shapes := valueShapes()
	for v := 1; v <= 5; v++ {
		for _, kind := range []int{kQuery, kExecute} {
			for _, pl := range plan {
				for _, c := range pl.d.cons {
					v, kind, e, c, d := v, kind, pl.e, c, pl.d
					gens = append(gens, func(emit func(*ask)) {
						n := 0
						for _, sh := range shapes {
							for _, skip := range []bool{false, true} {
								for _, ps := range d.pageSizes {
									for _, pg := range d.pagings {
										for _, se := range d.serials {
											for _, ts := range d.tss {
												for _, ks := range []string{"", "ks"} {
													a := ask{Version: v, Kind: kind, Stream: 1, Comp: e.comp, Tracing: e.tr, Payload: e.pl, P: sh}
													a.P.Cons = c
													if c == 0xffff {
														a.P.Cons = allCons[n%len(allCons)]
													}
													a.P.SkipMeta, a.P.PageSize, a.P.Paging, a.P.Serial, a.P.TS, a.P.Keyspace = skip, ps, pg, se, ts, ks
													if kind == kExecute {
														a.IDLen = 16
													}
													n++
													emit(&a)
												}
											}
										}
									}
								}
							}
						}
					})
				}
			}
		}
	}

	// S4: heavy shapes: 65535 values / entries (the largest counts a [short] can carry).
	for v := 1; v <= 5; v++ {
		for _, kind := range kindsOf(v) {
			if kind != kQuery && kind != kExecute && kind != kBatch {
				continue
			}
			comps := []bool{false}
			if thorough {
				comps = []bool{false, true}
			}
			for _, comp := range comps {
				v, kind, comp := v, kind, comp
				gens = append(gens, func(emit func(*ask)) {
					if kind == kBatch {
						for i, sh := range [][]entryAsk{
							{{Prepared: true, Mode: modePositional, NVals: 1, ValKinds: []int{vNormal}}, {Prepared: false, Mode: modeNone}},
							{{Prepared: true, Mode: modePositional, NVals: 2, ValKinds: []int{vNull, vEmpty}}, {Prepared: true, Mode: modeNone}, {Prepared: false, Mode: modePositional, NVals: 1, ValKinds: []int{vUnset}}},
						} {
							a := ask{Version: v, Kind: kind, Stream: 1, Comp: comp, BType: byte(i), Entries: sh, NEntries: 65535, P: paramAsk{Cons: 6, Serial: 8, TS: tsFixed}}
							emit(&a)
						}
						// one entry with 65535 values
						a := ask{Version: v, Kind: kind, Stream: 1, Comp: comp, Entries: []entryAsk{{Prepared: true, Mode: modePositional, NVals: 65535}}, NEntries: 1, P: paramAsk{Cons: 1}}
						emit(&a)
						return
					}
					modes := []int{modePositional, modeNamed}
					for _, mode := range modes {
						for rot := 0; rot < 4; rot++ {
							if !thorough && rot > 0 {
								continue
							}
							a := ask{Version: v, Kind: kind, Stream: 1, Comp: comp, IDLen: 16, P: paramAsk{Cons: 4, Mode: mode, NVals: 65535, Rot: rot}}
							emit(&a)
							b := a
							b.P.SkipMeta, b.P.PageSize, b.P.Paging, b.P.Serial, b.P.TS, b.P.Keyspace = true, 100, 5, 9, tsFixed, "ks"
							emit(&b)
						}
					}
				})
			}
		}
	}

	// S5: BATCH product.
	bcons := []uint16{0xffff}
	bcomps := []bool{false}
	bpl := []int{plNone, plOne, plEmpty}
	btss := []int{tsOff, tsFixed}
	if thorough {
		bcons, bcomps, bpl, btss = allCons, []bool{false, true}, allPayloads, []int{tsOff, tsFixed, tsNegative, tsNow}
	}
	for v := 2; v <= 5; v++ {
		for _, c := range bcons {
			for _, comp := range bcomps {
				v, c, comp := v, c, comp
				gens = append(gens, func(emit func(*ask)) {
					n := 0
					for _, sh := range entryShapes() {
						for bt := byte(0); bt < 3; bt++ {
							for _, se := range []uint16{0, 8, 9} {
								for _, ts := range btss {
									for _, pl := range bpl {
										a := ask{Version: v, Kind: kBatch, Stream: 1, Comp: comp, Payload: pl, BType: bt, Entries: sh, NEntries: len(sh)}
										a.P = paramAsk{Cons: c, Serial: se, TS: ts}
										if c == 0xffff {
											a.P.Cons = allCons[n%len(allCons)]
										}
										n++
										emit(&a)
									}
								}
							}
						}
					}
				})
			}
		}
	}
	return gens
}

// ---------------------------------------------------------------------------

type local struct {
	evals       int64
	keys        [][8]byte
	perVersion  [6]int64
	perKind     [nKinds]int64
	classes     map[string]int64
	inexpr      map[string]int64
	compressed  int64
	uncompWhenC int64
	samples     []json.RawMessage // first non-trivial ask of every generator
}

func main() {
	r := report.New("C03", "exploration")
	r.SetRule("bounded-exhaustive product: (S1) every stream id 0..127 (v1,v2) / 0..32767 (v3-v5) x every request kind of the version; " +
		"(S2) version x kind x boundary streams {1,127,128,32767} x compression off/snappy x tracing x custom payload {nil map, non-nil map without entries, 1 entry, 2 entries} for every kind whose builder can carry one (QUERY, PREPARE, EXECUTE, BATCH) x per-kind body variants; " +
		"(S3) for QUERY and EXECUTE the product of value shapes (none | positional | named | mixed; count 0,1,2; every value normal/null/unset/empty) x consistency x skip-metadata x page size x paging state x serial consistency x default timestamp x keyspace x custom payload {nil, empty non-nil, 1 entry}; " +
		"(S4) 65535 values / 65535 batch entries; (S5) BATCH: type x entries (0,1,2 of 12 entry shapes: prepared/unprepared, 0..2 values of each kind, named) x consistency x serial consistency x timestamp x custom payload {nil, empty non-nil, 1 entry (thorough: + 2 entries)}. " +
		"(live) the public API (Session.Query / NewBatch with every option) on a real Conn after the real handshake and on a whole Session (Query.Exec / Session.ExecuteBatch through executor, policy and pool) against a scripted node that decodes with the reference codec: protocol v1-v5 x snappy (x authentication x USE keyspace) x QUERY / EXECUTE / BATCH shapes x custom payload {nil, empty non-nil, 1, 2 entries}, and BATCH statement counts {1, 65534, 65535 (must go out, every statement recovered), 65536, 65537 (cannot be expressed: whatever reaches the node must be well-formed and be the request)} per version x compression. " +
		"Each frame is built by gocql's own write*Frame.buildFrame on a real framer and decoded by the independent reference codec. " +
		"A case is distinct by its ask; non-trivial when a frame was produced, decoded by the reference and compared field by field with the ask.")
	r.Assume("refcql/frame is a faithful reading of native_protocol_v1..v5.spec (cross-checked by hand-computed examples and a recorded frame)",
		"v5 is the dialect the driver implements (legacy envelope, beta flag, [int] flags, keyspace; no result_metadata_id / now_in_seconds)",
		"github.com/golang/snappy decodes what a Cassandra node would decode",
		"value counts above 65535 (they come from the node's prepared metadata) and strings longer than the notation can carry are outside the stated bounds; statement counts above 65535 are asked on the public path only (the builder objects alone send nothing)")

	thorough := r.Thorough()
	gens := generators(thorough)
	// development aid: C03_ONLY=live skips the builder-level enumeration (the run is then reported as not exhaustive)
	onlyLive := os.Getenv("C03_ONLY") == "live"
	if onlyLive {
		gens = nil
	}
	work := make(chan generator, len(gens))
	for _, g := range gens {
		work <- g
	}
	close(work)

	nw := runtime.NumCPU()
	if nw > 16 {
		nw = 16
	}
	locals := make([]*local, nw)
	var wg sync.WaitGroup
	start := time.Now()
	for w := 0; w < nw; w++ {
		l := &local{classes: map[string]int64{}, inexpr: map[string]int64{}}
		locals[w] = l
		wg.Add(1)
		go func() {
			defer wg.Done()
			for g := range work {
				nt := 0
				g(func(a *ask) {
					a.KindStr = kindNames[a.Kind]
					o := safeEvaluate(a)
					l.evals++
					l.perVersion[a.Version]++
					l.perKind[a.Kind]++
					l.classes[o.class]++
					if o.nontriv {
						l.keys = append(l.keys, a.key())
					}
					if a.Comp {
						if o.compressed {
							l.compressed++
						} else if o.class == "frame" {
							l.uncompWhenC++
						}
					}
					if o.class == "harness-panic" {
						r.Infra("harness panic on %+v: %s", *a, o.detail)
					} else if o.viol != "" {
						r.Violation(o.viol, o.detail, a)
					} else if ex := expect(a); len(ex.inexpr) == 1 {
						// per inexpressible feature (asked alone): how the builder dealt with it
						for _, f := range ex.inexpr {
							l.inexpr[f+" -> "+map[string]string{"frame": "well-formed frame without it", "error": "error", "panic": "panic (nothing sent)"}[o.class]]++
						}
					}
					if o.nontriv {
						// keep the 37th (else the first) non-trivial ask of every generator as sample candidate
						nt++
						if nt == 1 || nt == 37 {
							b, _ := json.Marshal(a)
							if nt == 1 {
								l.samples = append(l.samples, json.RawMessage(b))
							} else {
								l.samples[len(l.samples)-1] = json.RawMessage(b)
							}
						}
					}
				})
			}
		}()
	}
	wg.Wait()

	perVersion := map[string]int64{}
	perKind := map[string]int64{}
	classes := map[string]int64{}
	refused := map[string]int64{}
	var compressed, uncomp int64
	var samples []json.RawMessage
	for _, l := range locals {
		samples = append(samples, l.samples...)
	}
	sort.Slice(samples, func(i, j int) bool { return string(samples[i]) < string(samples[j]) })
	for i := 0; i < report.MaxSamples && len(samples) > 0; i++ {
		r.Sample(samples[(i*len(samples)/report.MaxSamples+i*7)%len(samples)])
	}
	for _, l := range locals {
		r.AddCounts(l.evals, l.keys)
		for v := 1; v <= 5; v++ {
			perVersion[fmt.Sprintf("v%d", v)] += l.perVersion[v]
		}
		for k := 0; k < nKinds; k++ {
			perKind[kindNames[k]] += l.perKind[k]
		}
		for k, n := range l.classes {
			classes[k] += n
		}
		for k, n := range l.inexpr {
			refused[k] += n
		}
		compressed += l.compressed
		uncomp += l.uncompWhenC
	}
	r.Extra("cases_per_version", perVersion)
	r.Extra("cases_per_kind", perKind)
	r.Extra("builder_outcomes", classes)
	r.Extra("inexpressible_feature_outcomes", sortedMap(refused))
	r.Extra("frames_compressed_and_decompressed", compressed)
	r.Extra("frames_left_uncompressed_with_compressor", uncomp)
	r.Extra("builder_phase_seconds", time.Since(start).Seconds())

	// public-path binding: guard probes and the live connection
	runPublicPath(r)

	os.Exit(r.Finish(!onlyLive))
}

func sortedMap(m map[string]int64) map[string]int64 {
	// encoding/json sorts keys already; keep only the 40 largest to bound the evidence size
	type kv struct {
		k string
		n int64
	}
	var l []kv
	for k, n := range m {
		l = append(l, kv{k, n})
	}
	sort.Slice(l, func(i, j int) bool { return l[i].n > l[j].n })
	out := map[string]int64{}
	for i, e := range l {
		if i >= 40 {
			break
		}
		out[e.k] = e.n
	}
	return out
}

func safeEvaluate(a *ask) (o outcome) {
	defer func() {
		if p := recover(); p != nil {
			o = outcome{class: "harness-panic", detail: fmt.Sprint(p)}
		}
	}()
	return evaluate(a)
}
