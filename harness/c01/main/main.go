// C01: every response reaches the request that caused it, and only that one.
// Controlled-scheduler exploration of one real Conn (instrumented gocql) against a
// scripted node: schedules x reply order/fates x timeouts/cancellation/write faults.
package main

import (
	"fmt"
	"net"
	"sort"
	"strings"
	"time"

	"github.com/gocql/gocql"

	"verif/engine/mcreport"
	"verif/engine/refcql/frame"
	"verif/engine/vnode"
	vs "verif/engine/vsched"
	"verif/engine/vsched/vatomic"
	context "verif/engine/vsched/vcontext" // the harness must use the scheduler-owned context: a natively closed Done channel is invisible to the scheduler
	"verif/engine/vsched/vnet"
)

type cfgT struct {
	name       string
	proto      int
	callers    int
	perCaller  int
	freeIDs    int  // >0: leave only this many stream ids free (v2 only)
	canceller  bool // a thread cancels caller 0's context at an arbitrary point
	writeFault bool // client-side write faults on request frames
	coalesce   bool
	fates      []string // fates the node may choose per request (first = default)
}

type labelKey struct{}

type streamEv struct {
	label string
	kind  string
	// state of the world at the event
	frameOnWire bool
	replied     bool
	at          time.Duration
}

type world struct {
	cfg      *cfgT
	node     *vnode.Node
	client   *vnet.Conn
	wlog     []vnet.WriteRec
	events   []streamEv
	fateOf   map[string]string
	canceled map[int]bool
}

// observer implements gocql.StreamObserver / StreamObserverContext.
type observer struct{ w *world }
type obsCtx struct {
	w     *world
	label string
}

func (o observer) StreamContext(ctx context.Context) gocql.StreamObserverContext {
	l, _ := ctx.Value(labelKey{}).(string)
	if l == "" {
		return nil
	}
	return &obsCtx{o.w, l}
}

func (o *obsCtx) rec(kind string) {
	w := o.w
	ev := streamEv{label: o.label, kind: kind, at: vs.Clock()}
	for _, r := range w.wlog {
		if strings.Contains(string(r.Data), "'"+o.label+"'") {
			ev.frameOnWire = true
		}
	}
	for _, r := range w.node.Log {
		if r.Req == nil {
			continue
		}
		if q, ok := r.Req.Msg.(*frame.Query); ok && strings.Contains(q.Statement, "'"+o.label+"'") && r.Replied {
			ev.replied = true
		}
	}
	w.events = append(w.events, ev)
}
func (o *obsCtx) StreamStarted(gocql.ObservedStream)   { o.rec("started") }
func (o *obsCtx) StreamFinished(gocql.ObservedStream)  { o.rec("finished") }
func (o *obsCtx) StreamAbandoned(gocql.ObservedStream) { o.rec("abandoned") }

func labelOf(stmt string) string {
	i := strings.Index(stmt, "'")
	j := strings.LastIndex(stmt, "'")
	if i < 0 || j <= i {
		return ""
	}
	return stmt[i+1 : j]
}

func (w *world) handler(n *vnode.Node, sc *vnode.ServerConn, rec *vnode.ReqRec) vnode.Reply {
	q, ok := rec.Req.Msg.(*frame.Query)
	if !ok {
		return vnode.Reply{Msg: frame.ResultVoid{}}
	}
	label := labelOf(q.Statement)
	// wire-level monitor: an id must not be reused while an earlier request with that id is still owed its response
	lo, hi := frame.StreamRange(rec.Req.Header.Version)
	_ = lo
	if rec.Stream < 1 || rec.Stream > hi {
		vs.Failf("c01:stream-id-out-of-range", "request %q sent with stream id %d (valid 1..%d)", label, rec.Stream, hi)
	}
	for _, old := range n.Log[:rec.Seq] {
		if old.Conn == rec.Conn && old.Stream == rec.Stream && !old.Replied && old.Req != nil {
			if oq, ok := old.Req.Msg.(*frame.Query); ok {
				vs.Failf("c01:stream-id-reused-before-response", "stream id %d reused by %q at %v while request %q (received %v, fate %s) has not been answered on this open connection",
					rec.Stream, label, vs.Clock(), labelOf(oq.Statement), old.Time, old.Fate)
			}
		}
	}
	fate := w.cfg.fates[vs.Choose(len(w.cfg.fates), vs.CostF)]
	w.fateOf[label] = fate
	switch fate {
	case "late":
		return vnode.Reply{Msg: vnode.TextRows("t", label), Delay: 150 * time.Millisecond}
	case "never":
		return vnode.Reply{Never: true}
	case "error":
		return vnode.Reply{Msg: &frame.Error{Code: 0x2200, Message: "invalid:" + label}}
	case "drop":
		return vnode.Reply{Drop: true}
	}
	return vnode.Reply{Msg: vnode.TextRows("t", label)}
}

func (c *cfgT) body() {
	gocql.VerifResetGlobals()
	vatomic.Yield = false // the stream-id allocator's atomic steps are explored by C08
	w := &world{cfg: c, fateOf: map[string]string{}, canceled: map[int]bool{}}
	w.node = vnode.New("n1", net.IPv4(10, 0, 0, 1), 9042, vnode.Basic(w.handler))
	client, server := vnet.Pipe("c0", &net.TCPAddr{IP: net.IPv4(10, 0, 0, 9), Port: 40000}, w.node.Addr)
	client.Log = &w.wlog
	w.client = client
	w.node.AcceptSync(server)

	cluster := gocql.NewCluster("10.0.0.1")
	cluster.ProtoVersion = c.proto
	cluster.Timeout = 100 * time.Millisecond
	cluster.ConnectTimeout = 100 * time.Millisecond
	cluster.WriteCoalesceWaitTime = 0
	if c.coalesce {
		cluster.WriteCoalesceWaitTime = 200 * time.Microsecond
	}
	cluster.StreamObserver = observer{w}
	vs.Quiet(true)
	live, err := gocql.VerifDial(client, *cluster, !c.coalesce)
	if err != nil {
		vs.Quiet(false)
		vs.Failf("c01:handshake-failed", "handshake failed in the quiet prefix: %v", err)
		return
	}
	if c.freeIDs > 0 {
		n := live.NumStreams() - 1 - c.freeIDs
		if got := len(live.ReserveStreams(n)); got != n {
			vs.Failf("c01:setup", "reserved %d of %d ids", got, n)
		}
	}
	vs.Quiet(false)
	if c.writeFault {
		hs := len(w.wlog)
		client.Faults = func(_ *vnet.Conn, idx, n int) []int {
			if idx < hs {
				return nil
			}
			return []int{0, n / 2}
		}
	}

	type result struct {
		label string
		rows  []string
		err   error
	}
	results := make(chan result, c.callers*c.perCaller)
	ctxs := make([]context.Context, c.callers)
	cancels := make([]context.CancelFunc, c.callers)
	for i := range ctxs {
		ctxs[i], cancels[i] = context.WithCancel(context.Background())
	}
	for i := 0; i < c.callers; i++ {
		i := i
		vs.GoNamed(fmt.Sprintf("caller%d", i), func() {
			for k := 0; k < c.perCaller; k++ {
				label := fmt.Sprintf("c%dq%d", i, k)
				ctx := context.WithValue(ctxs[i], labelKey{}, label)
				it := live.Query(ctx, "QUERYX '"+label+"'").Iter()
				var rows []string
				var s string
				for it.Scan(&s) {
					rows = append(rows, s)
				}
				err := it.Close()
				vs.Send(results, result{label, rows, err})
			}
		})
	}
	if c.canceller {
		vs.GoNamed("canceller", func() {
			w.canceled[0] = true
			cancels[0]()
		})
	}
	var got []result
	for i := 0; i < c.callers*c.perCaller; i++ {
		got = append(got, vs.Recv[result](results))
	}
	vs.WaitQuiescent()

	// (1) what each caller got
	var sig []string
	for _, r := range got {
		cls := gocql.VerifErrClass(r.err)
		fate := w.fateOf[r.label]
		switch {
		case r.err == nil:
			if len(r.rows) != 1 || r.rows[0] != r.label {
				vs.Failf("c01:misdelivered-rows", "caller of %q received rows %v (fate %q)", r.label, r.rows, fate)
			}
			if fate != "" && fate != "reply" && fate != "late" {
				vs.Failf("c01:rows-without-reply", "caller of %q received rows although the node's fate for it was %q", r.label, fate)
			}
		case cls == "server-error":
			if !strings.Contains(r.err.Error(), "invalid:"+r.label) {
				vs.Failf("c01:misdelivered-error", "caller of %q received a server error that is not its own: %v (fate %q)", r.label, r.err, fate)
			}
		case cls == "timeout", cls == "conn-closed", cls == "no-streams" && c.freeIDs > 0:
		case cls == "ctx-canceled":
			if !strings.HasPrefix(r.label, "c0") || !c.canceller {
				vs.Failf("c01:spurious-cancel", "caller of %q got context.Canceled but its context was never cancelled", r.label)
			}
		case strings.HasPrefix(cls, "other:"):
			// write faults surface as the injected net error; EOF when the node dropped the connection
			msg := r.err.Error()
			okMsg := strings.Contains(msg, "vnet:") || strings.Contains(msg, "EOF") || strings.Contains(msg, "closed")
			if !okMsg {
				vs.Failf("c01:unexpected-error", "caller of %q got %v (fate %q)", r.label, r.err, fate)
			}
		default:
			vs.Failf("c01:unexpected-error", "caller of %q got %v (fate %q)", r.label, r.err, fate)
		}
		sig = append(sig, fmt.Sprintf("%s:%s/%s", r.label, fate, cls))
	}
	// (2) release-after-response monitor on the stream observer callbacks
	ended := map[string]string{}
	for _, e := range w.events {
		switch e.kind {
		case "finished":
			if e.frameOnWire && !e.replied {
				vs.Failf("c01:stream-released-before-response", "StreamFinished for %q at %v although its frame is on the wire and the node has not answered it (fate %q)", e.label, e.at, w.fateOf[e.label])
			}
			fallthrough
		case "abandoned":
			if prev, dup := ended[e.label]; dup {
				vs.Failf("c01:stream-ended-twice", "stream of %q ended twice: %s then %s", e.label, prev, e.kind)
			}
			ended[e.label] = e.kind
		}
	}
	if len(w.node.FrameErrors) > 0 && !c.writeFault {
		vs.Failf("c01:node-frame-error", "node could not parse the client's bytes: %v", w.node.FrameErrors)
	}
	sort.Strings(sig)
	vs.Observe("%s", strings.Join(sig, " "))
}

func (c *cfgT) build() *vs.Scenario {
	return &vs.Scenario{Name: c.name, Cfg: vs.Config{MaxSteps: 20000, Horizon: 700 * time.Millisecond, DelayBounded: true}, Body: c.body}
}

func main() {
	all := []string{"reply", "late", "never", "error", "drop"}
	cfgs := []*cfgT{
		{name: "v2-2x2-free2-fates", proto: 2, callers: 2, perCaller: 2, freeIDs: 2, fates: all},
		{name: "v2-2x2-free2-cancel", proto: 2, callers: 2, perCaller: 2, freeIDs: 2, canceller: true, fates: []string{"reply", "late", "never"}},
		{name: "v2-3x1-free2-writefault", proto: 2, callers: 3, perCaller: 1, freeIDs: 2, writeFault: true, fates: []string{"reply", "late"}},
		{name: "v4-2x2-fates", proto: 4, callers: 2, perCaller: 2, fates: all},
		{name: "v2-2x2-free2-coalesce", proto: 2, callers: 2, perCaller: 2, freeIDs: 2, coalesce: true, fates: []string{"reply", "late", "never"}},
		{name: "v2-3x2-free1-late", proto: 2, callers: 3, perCaller: 2, freeIDs: 1, fates: []string{"reply", "late", "never"}},
	}
	var defs []mcreport.Def
	for _, c := range cfgs {
		c := c
		q := vs.Bounds{P: 2, D: 2, F: 2, T: 2}
		if c.name == "v2-2x2-free2-fates" || c.name == "v2-2x2-free2-cancel" {
			q = vs.Bounds{P: 3, D: 3, F: 3, T: 3}
		}
		defs = append(defs, mcreport.Def{Name: c.name, Build: c.build, Quick: q, Thorough: vs.Bounds{P: 4, D: 4, F: 4, T: 4}})
	}
	mcreport.Main("C01", "model_checking",
		"delay-bounded exhaustive exploration: every execution of the listed one-connection scenarios on the instrumented real Conn that departs at most T times from the deterministic default (P: another thread or select case runs, D: a timer fires while threads are runnable, F: a non-default environment answer - per-request fate reply/late/never/error/drop, client write fault at byte 0 or n/2); happens-before state caching; distinct = distinct per-caller outcome signatures",
		[]string{"one connection, 2-3 callers with 1-2 sequential queries each; request timeout 100ms, late replies after 150ms, horizon 700ms (heartbeat excluded, see C06)",
			"map iteration order is fixed (sorted) by the instrumenter; plain memory accesses are not scheduling points (separate -race pass)"},
		defs, 60*time.Second, 12*time.Minute, nil)
}
