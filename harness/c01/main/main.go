package main

import (
	"time"

	"verif/engine/mcreport"
)

func main() {
	mcreport.Main("C01", "model_checking", connRule, connAssume, connDefs("C01"), 75*time.Second, 25*time.Minute, nil)
}
