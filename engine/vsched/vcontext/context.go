// Package vcontext mirrors package context with cancellation and deadlines owned by vsched.
package vcontext

import (
	"context"
	"time"

	"verif/engine/vsched"
)

type (
	Context    = context.Context
	CancelFunc = context.CancelFunc
)

var (
	Canceled         = context.Canceled
	DeadlineExceeded = context.DeadlineExceeded
)

func Background() Context { return context.Background() }
func TODO() Context       { return context.TODO() }

func WithValue(parent Context, key, val interface{}) Context {
	return context.WithValue(parent, key, val)
}

type ctxKey struct{}

var cancelKey ctxKey

type cancelCtx struct {
	parent   Context
	done     chan struct{}
	err      error
	children []*cancelCtx
	deadline time.Time
	hasDL    bool
	timer    *vsched.Timer
}

func (c *cancelCtx) Deadline() (time.Time, bool) {
	if c.hasDL {
		return c.deadline, true
	}
	return c.parent.Deadline()
}
func (c *cancelCtx) Done() <-chan struct{} { return c.done }
func (c *cancelCtx) Err() error            { return c.err }
func (c *cancelCtx) Value(key interface{}) interface{} {
	if key == &cancelKey {
		return c
	}
	return c.parent.Value(key)
}

func (c *cancelCtx) cancel(err error) {
	if c.err != nil {
		return
	}
	c.err = err
	vsched.CloseNoPoint(c.done)
	if c.timer != nil {
		c.timer.StopNoPoint()
	}
	for _, ch := range c.children {
		ch.cancel(err)
	}
	c.children = nil
}

func newCancel(parent Context) *cancelCtx {
	if parent == nil {
		panic("cannot create context from nil parent")
	}
	c := &cancelCtx{parent: parent, done: make(chan struct{})}
	if p, ok := parent.Value(&cancelKey).(*cancelCtx); ok {
		if p.err != nil {
			c.err = p.err
			vsched.CloseNoPoint(c.done)
		} else {
			p.children = append(p.children, c)
		}
	} else if parent.Done() != nil {
		// a foreign cancellable parent (std context): not supported under the scheduler
		if parent.Err() != nil {
			c.err = parent.Err()
			vsched.CloseNoPoint(c.done)
		}
	}
	return c
}

func WithCancel(parent Context) (Context, CancelFunc) {
	c := newCancel(parent)
	return c, func() {
		if vsched.Aborting() {
			return
		}
		vsched.Point("ctx.cancel", nil)
		c.cancel(Canceled)
	}
}

func WithDeadline(parent Context, d time.Time) (Context, CancelFunc) {
	c := newCancel(parent)
	if cur, ok := parent.Deadline(); ok && cur.Before(d) {
		// parent's deadline is sooner; inherit through the parent link
	} else {
		c.deadline, c.hasDL = d, true
	}
	if c.err == nil && c.hasDL {
		dur := d.Sub(vsched.Now())
		if dur <= 0 {
			c.cancel(DeadlineExceeded)
		} else {
			c.timer = vsched.AfterFuncInline(dur, "ctx.deadline", func() { c.cancel(DeadlineExceeded) })
		}
	}
	return c, func() {
		if vsched.Aborting() {
			return
		}
		vsched.Point("ctx.cancel", nil)
		c.cancel(Canceled)
	}
}

func WithTimeout(parent Context, d time.Duration) (Context, CancelFunc) {
	return WithDeadline(parent, vsched.Now().Add(d))
}
