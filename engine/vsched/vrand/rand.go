// Package vrand mirrors the parts of math/rand gocql uses with a deterministic per-execution source.
package vrand

import (
	"math/rand"

	"verif/engine/vsched"
)

type (
	Rand   = rand.Rand
	Source = rand.Source
)

type src struct{}

func (src) Int63() int64    { return int64(vsched.Rand64() >> 1) }
func (src) Uint64() uint64  { return vsched.Rand64() }
func (src) Seed(seed int64) {}

// NewSource ignores the seed: randomness is owned by the scheduler.
func NewSource(seed int64) Source { return src{} }
func New(s Source) *Rand          { return rand.New(s) }

var global = rand.New(src{})

func Int() int                           { return global.Int() }
func Intn(n int) int                     { return global.Intn(n) }
func Int31n(n int32) int32               { return global.Int31n(n) }
func Int63() int64                       { return global.Int63() }
func Int63n(n int64) int64               { return global.Int63n(n) }
func Uint32() uint32                     { return global.Uint32() }
func Float64() float64                   { return global.Float64() }
func Perm(n int) []int                   { return global.Perm(n) }
func Shuffle(n int, swap func(i, j int)) { global.Shuffle(n, swap) }
func Seed(int64)                         {}
