// Package vatomic mirrors sync/atomic on top of vsched: every operation is a scheduling point.
package vatomic

import (
	"unsafe"

	"verif/engine/vsched"
)

// Yield controls whether atomic operations are scheduling points (scenarios may
// switch it off for packages verified compositionally).
var Yield = true

func pt(name string, p unsafe.Pointer) {
	write := name != "atomic.Load" && name != "atomic.Value.Load"
	if Yield {
		vsched.PointObj(name, nil, p, write)
	} else {
		vsched.Touch(p, write)
	}
}

func AddInt32(p *int32, d int32) int32 {
	pt("atomic.Add", unsafe.Pointer(p))
	*p += d
	vsched.Obs(uint64(*p))
	return *p
}
func AddInt64(p *int64, d int64) int64 {
	pt("atomic.Add", unsafe.Pointer(p))
	*p += d
	vsched.Obs(uint64(*p))
	return *p
}
func AddUint32(p *uint32, d uint32) uint32 {
	pt("atomic.Add", unsafe.Pointer(p))
	*p += d
	vsched.Obs(uint64(*p))
	return *p
}
func AddUint64(p *uint64, d uint64) uint64 {
	pt("atomic.Add", unsafe.Pointer(p))
	*p += d
	vsched.Obs(uint64(*p))
	return *p
}
func LoadInt32(p *int32) int32 {
	pt("atomic.Load", unsafe.Pointer(p))
	vsched.Obs(uint64(*p))
	return *p
}
func LoadInt64(p *int64) int64 {
	pt("atomic.Load", unsafe.Pointer(p))
	vsched.Obs(uint64(*p))
	return *p
}
func LoadUint32(p *uint32) uint32 {
	pt("atomic.Load", unsafe.Pointer(p))
	vsched.Obs(uint64(*p))
	return *p
}
func LoadUint64(p *uint64) uint64 {
	pt("atomic.Load", unsafe.Pointer(p))
	vsched.Obs(uint64(*p))
	return *p
}
func StoreInt32(p *int32, v int32)    { pt("atomic.Store", unsafe.Pointer(p)); *p = v }
func StoreInt64(p *int64, v int64)    { pt("atomic.Store", unsafe.Pointer(p)); *p = v }
func StoreUint32(p *uint32, v uint32) { pt("atomic.Store", unsafe.Pointer(p)); *p = v }
func StoreUint64(p *uint64, v uint64) { pt("atomic.Store", unsafe.Pointer(p)); *p = v }
func SwapInt32(p *int32, v int32) int32 {
	pt("atomic.Swap", unsafe.Pointer(p))
	o := *p
	*p = v
	return o
}
func SwapInt64(p *int64, v int64) int64 {
	pt("atomic.Swap", unsafe.Pointer(p))
	o := *p
	*p = v
	return o
}
func SwapUint32(p *uint32, v uint32) uint32 {
	pt("atomic.Swap", unsafe.Pointer(p))
	o := *p
	*p = v
	return o
}
func SwapUint64(p *uint64, v uint64) uint64 {
	pt("atomic.Swap", unsafe.Pointer(p))
	o := *p
	*p = v
	return o
}

// And*/Or* (sync/atomic since Go 1.23): read-modify-write, return the old value.
func AndInt32(p *int32, m int32) int32 {
	pt("atomic.And", unsafe.Pointer(p))
	o := *p
	*p = o & m
	vsched.Obs(uint64(o))
	return o
}
func AndUint32(p *uint32, m uint32) uint32 {
	pt("atomic.And", unsafe.Pointer(p))
	o := *p
	*p = o & m
	vsched.Obs(uint64(o))
	return o
}
func AndInt64(p *int64, m int64) int64 {
	pt("atomic.And", unsafe.Pointer(p))
	o := *p
	*p = o & m
	vsched.Obs(uint64(o))
	return o
}
func AndUint64(p *uint64, m uint64) uint64 {
	pt("atomic.And", unsafe.Pointer(p))
	o := *p
	*p = o & m
	vsched.Obs(o)
	return o
}
func OrInt32(p *int32, m int32) int32 {
	pt("atomic.Or", unsafe.Pointer(p))
	o := *p
	*p = o | m
	vsched.Obs(uint64(o))
	return o
}
func OrUint32(p *uint32, m uint32) uint32 {
	pt("atomic.Or", unsafe.Pointer(p))
	o := *p
	*p = o | m
	vsched.Obs(uint64(o))
	return o
}
func OrInt64(p *int64, m int64) int64 {
	pt("atomic.Or", unsafe.Pointer(p))
	o := *p
	*p = o | m
	vsched.Obs(uint64(o))
	return o
}
func OrUint64(p *uint64, m uint64) uint64 {
	pt("atomic.Or", unsafe.Pointer(p))
	o := *p
	*p = o | m
	vsched.Obs(o)
	return o
}

func CompareAndSwapInt32(p *int32, o, n int32) bool {
	pt("atomic.CAS", unsafe.Pointer(p))
	if *p == o {
		*p = n
		vsched.Obs(1)
		return true
	}
	vsched.Obs(0)
	return false
}
func CompareAndSwapInt64(p *int64, o, n int64) bool {
	pt("atomic.CAS", unsafe.Pointer(p))
	if *p == o {
		*p = n
		vsched.Obs(1)
		return true
	}
	vsched.Obs(0)
	return false
}
func CompareAndSwapUint32(p *uint32, o, n uint32) bool {
	pt("atomic.CAS", unsafe.Pointer(p))
	if *p == o {
		*p = n
		vsched.Obs(1)
		return true
	}
	vsched.Obs(0)
	return false
}
func CompareAndSwapUint64(p *uint64, o, n uint64) bool {
	pt("atomic.CAS", unsafe.Pointer(p))
	if *p == o {
		*p = n
		vsched.Obs(1)
		return true
	}
	vsched.Obs(0)
	return false
}
func LoadPointer(p *unsafe.Pointer) unsafe.Pointer     { pt("atomic.Load", unsafe.Pointer(p)); return *p }
func StorePointer(p *unsafe.Pointer, v unsafe.Pointer) { pt("atomic.Store", unsafe.Pointer(p)); *p = v }

type Value struct {
	v interface{}
}

func (x *Value) Load() interface{} { pt("atomic.Value.Load", unsafe.Pointer(x)); return x.v }
func (x *Value) Store(v interface{}) {
	if v == nil {
		panic("sync/atomic: store of nil value into Value")
	}
	pt("atomic.Value.Store", unsafe.Pointer(x))
	x.v = v
}

type Int32 struct{ v int32 }

func (x *Int32) Load() int32       { pt("atomic.Load", unsafe.Pointer(x)); return x.v }
func (x *Int32) Store(v int32)     { pt("atomic.Store", unsafe.Pointer(x)); x.v = v }
func (x *Int32) Add(d int32) int32 { pt("atomic.Add", unsafe.Pointer(x)); x.v += d; return x.v }
func (x *Int32) CompareAndSwap(o, n int32) bool {
	pt("atomic.CAS", unsafe.Pointer(x))
	if x.v == o {
		x.v = n
		return true
	}
	return false
}

type Int64 struct{ v int64 }

func (x *Int64) Load() int64       { pt("atomic.Load", unsafe.Pointer(x)); return x.v }
func (x *Int64) Store(v int64)     { pt("atomic.Store", unsafe.Pointer(x)); x.v = v }
func (x *Int64) Add(d int64) int64 { pt("atomic.Add", unsafe.Pointer(x)); x.v += d; return x.v }

type Bool struct{ v bool }

func (x *Bool) Load() bool   { pt("atomic.Load", unsafe.Pointer(x)); return x.v }
func (x *Bool) Store(v bool) { pt("atomic.Store", unsafe.Pointer(x)); x.v = v }
