// Package vsync mirrors the parts of package sync that gocql uses, on top of vsched.
package vsync

import (
	"unsafe"

	"verif/engine/vsched"
)

type Locker interface {
	Lock()
	Unlock()
}

type Mutex struct {
	locked bool
}

func (m *Mutex) Lock() {
	if !vsched.Active() {
		if vsched.Aborting() {
			return
		}
		m.locked = true
		return
	}
	vsched.PointObj("Mutex.Lock", func() bool { return !m.locked }, unsafe.Pointer(m), true)
	m.locked = true
}

func (m *Mutex) Unlock() {
	if vsched.Aborting() {
		return
	}
	if !m.locked {
		panic("sync: unlock of unlocked mutex")
	}
	vsched.Touch(unsafe.Pointer(m), true)
	m.locked = false
}

func (m *Mutex) TryLock() bool {
	if vsched.Aborting() {
		return true
	}
	vsched.PointObj("Mutex.TryLock", nil, unsafe.Pointer(m), true)
	if m.locked {
		return false
	}
	m.locked = true
	return true
}

// RWMutex is writer-preferring like sync.RWMutex: once a writer has announced
// itself, new readers wait.
type RWMutex struct {
	readers        int
	writer         bool
	writersWaiting int
}

func (m *RWMutex) Lock() {
	if !vsched.Active() {
		if vsched.Aborting() {
			return
		}
		m.writer = true
		return
	}
	// step 1: announce (blocks new readers); step 2: acquire
	vsched.PointObj("RWMutex.Lock/announce", nil, unsafe.Pointer(m), true)
	m.writersWaiting++
	vsched.PointObj("RWMutex.Lock", func() bool { return !m.writer && m.readers == 0 }, unsafe.Pointer(m), true)
	m.writersWaiting--
	m.writer = true
}

func (m *RWMutex) Unlock() {
	if vsched.Aborting() {
		return
	}
	if !m.writer {
		panic("sync: Unlock of unlocked RWMutex")
	}
	vsched.Touch(unsafe.Pointer(m), true)
	m.writer = false
}

func (m *RWMutex) RLock() {
	if !vsched.Active() {
		if vsched.Aborting() {
			return
		}
		m.readers++
		return
	}
	vsched.PointObj("RWMutex.RLock", func() bool { return !m.writer && m.writersWaiting == 0 }, unsafe.Pointer(m), false)
	m.readers++
}

func (m *RWMutex) RUnlock() {
	if vsched.Aborting() {
		return
	}
	if m.readers <= 0 {
		panic("sync: RUnlock of unlocked RWMutex")
	}
	vsched.Touch(unsafe.Pointer(m), false)
	m.readers--
}

func (m *RWMutex) RLocker() Locker { return (*rlocker)(m) }

type rlocker RWMutex

func (r *rlocker) Lock()   { (*RWMutex)(r).RLock() }
func (r *rlocker) Unlock() { (*RWMutex)(r).RUnlock() }

type Once struct {
	done    bool
	running bool
}

func (o *Once) Do(f func()) {
	if vsched.Aborting() {
		return
	}
	if !vsched.Active() {
		if !o.done {
			o.done = true
			f()
		}
		return
	}
	vsched.PointObj("Once.Do", func() bool { return !o.running }, unsafe.Pointer(o), true)
	if o.done {
		return
	}
	o.running = true
	defer func() { vsched.Touch(unsafe.Pointer(o), true); o.running = false; o.done = true }()
	f()
}

type WaitGroup struct {
	n int
}

func (w *WaitGroup) Add(d int) {
	if vsched.Aborting() {
		return
	}
	vsched.Touch(unsafe.Pointer(w), true)
	w.n += d
	if w.n < 0 {
		panic("sync: negative WaitGroup counter")
	}
}

func (w *WaitGroup) Done() { w.Add(-1) }

func (w *WaitGroup) Wait() {
	if !vsched.Active() {
		return
	}
	vsched.PointObj("WaitGroup.Wait", func() bool { return w.n == 0 }, unsafe.Pointer(w), false)
}

// Pool is a deterministic LIFO free list (object reuse stays visible).
type Pool struct {
	New   func() interface{}
	items []interface{}
}

func (p *Pool) Get() interface{} {
	vsched.Touch(unsafe.Pointer(p), true)
	if n := len(p.items); n > 0 {
		x := p.items[n-1]
		p.items = p.items[:n-1]
		return x
	}
	if p.New != nil {
		return p.New()
	}
	return nil
}

func (p *Pool) Put(x interface{}) {
	if vsched.Aborting() {
		return
	}
	vsched.Touch(unsafe.Pointer(p), true)
	p.items = append(p.items, x)
}

// Reset empties the pool (harness use between executions).
func (p *Pool) Reset() { p.items = nil }
