// Package vsched is a cooperative controlled scheduler for instrumented Go code.
//
// Exactly one "thread" (a goroutine created through Go) runs at any time; it
// runs until its next scheduling point, where the scheduling decision is made
// (by whichever goroutine holds the baton) and the baton is handed to the
// chosen thread. Every decision with more than one alternative is recorded as a
// choice point so the explorer can enumerate all of them by prefix replay.
//
// Time is virtual. Channels stay native Go channels; unbuffered rendezvous
// transfers go through a side slot so that no two threads ever run at once.
package vsched

import (
	"fmt"
	"runtime"
	"runtime/debug"
	"sort"
	"strings"
	"time"
	"unsafe"
)

type CostKind uint8

const (
	Free  CostKind = iota
	CostP          // preemption: switching away from an enabled running thread
	CostD          // clock deviation: firing a timer while threads are runnable
	CostF          // environment fault: Choose alternative >= 1
)

type opKind uint8

const (
	opReady opKind = iota
	opCond
	opChan
	opQuiesce
	opIdle
)

type chanCase struct {
	send   bool
	ptr    unsafe.Pointer // channel identity (nil for nil channel)
	length func() int
	capa   int
	val    interface{} // value to send (rendezvous side slot)
}

type Op struct {
	kind       opKind
	obj        unsafe.Pointer // object the operation conflicts on (nil: thread-local step)
	write      bool
	cond       func() bool
	cases      []chanCase
	hasDefault bool
	desc       string
	// result (set by the scheduler when the op is chosen)
	resCase int         // chosen case (-1 default)
	resVal  interface{} // value received by rendezvous
	resRdv  bool        // completed by rendezvous (no native op needed)
}

type Thread struct {
	ID     int
	Name   string
	wake   chan struct{}
	op     *Op
	done   bool
	daemon bool // blocked-forever is not a deadlock by itself
	vc     vclock
	obs    uint64
}

type transition struct {
	t        *Thread
	caseIdx  int
	partner  *Thread
	partCase int
}

type ChoicePoint struct {
	N     int
	Costs []CostKind // per alternative
	Taken int
	FP    [2]uint64 // happens-before fingerprint of the state at this point
	AltID []uint64  // schedule-independent identity of each alternative
}

type OutcomeKind int

const (
	Completed OutcomeKind = iota
	Deadlock
	Panicked
	StepLimit
	Failed // vsched.Failf called with abort
	Pruned // stopped early: state already explored (explorer's cache)
)

func (k OutcomeKind) String() string {
	return [...]string{"completed", "deadlock", "panic", "step-limit", "failed", "pruned"}[k]
}

type Failure struct {
	Key, Detail string
}

type Outcome struct {
	Kind      OutcomeKind
	PanicVal  interface{}
	PanicSite string
	Stack     string
	Blocked   []string // descriptions of blocked threads
	Failures  []Failure
	Observed  []string
	Steps     int
	Clock     time.Duration
	Trace     []ChoicePoint
	EventLog  []string
}

type Config struct {
	MaxSteps  int           // scheduling decisions per execution (0 = 200000)
	Horizon   time.Duration // timers later than this never fire (0 = 1h)
	LogEvents bool
	// DelayBounded switches from preemption bounding to delay bounding (Emmi,
	// Qadeer, Rakamaric 2011): the default scheduler is deterministic (keep
	// running the current thread, else the lowest-id enabled thread, first ready
	// select case) and EVERY other alternative costs one unit of P, also when
	// the running thread has blocked.
	DelayBounded bool
	// StateHash, if set, switches the state fingerprint from happens-before
	// hashing to observational hashing: fingerprint = per-thread hashes of every
	// value the thread has observed through the shims (Obs) combined with
	// StateHash(), which must cover all shared mutable state of the scenario.
	// Sound only when threads' local states are functions of their observations.
	StateHash func() uint64
}

type Sched struct {
	cfg      Config
	threads  []*Thread
	cur      *Thread
	clock    time.Duration
	timers   []*Timer
	timerSeq int
	closed   map[unsafe.Pointer]bool
	prefix   []int
	trace    []ChoicePoint
	quiet    int // >0: choices take the default and are not recorded
	aborting bool
	ended    bool
	done     chan struct{}
	abortAck chan struct{}
	out      Outcome
	steps    int
	objSeq   int
	rngState uint64
	keep     []interface{}
	used     [4]int // deviations taken so far, by kind
	objs     map[unsafe.Pointer]*objState
	gvc      vclock
	fp       [2]uint64
	nev      int
	// Prune, if set, is asked at every recorded choice point beyond the replayed
	// prefix whether the execution can stop here (state already explored).
	prune func(cp *ChoicePoint, pos int) bool
	last  *Op // op just completed by the running thread (select completion)
}

// S is the current execution (nil when none). One execution per process at a time.
var S *Sched

// Active reports whether code is running under the scheduler.
func Active() bool { return S != nil && !S.aborting }

// Aborting reports whether the current execution is being torn down.
func Aborting() bool { return S != nil && S.aborting }

var epoch = time.Date(2024, 1, 1, 0, 0, 0, 0, time.UTC)

// Now returns the virtual time.
func Now() time.Time {
	if S == nil {
		return epoch
	}
	return epoch.Add(S.clock)
}

func Clock() time.Duration {
	if S == nil {
		return 0
	}
	return S.clock
}

// Run executes body as the main thread under the scheduler, replaying prefix
// and taking the default alternative afterwards. It returns when the execution
// has ended and every thread has been unwound.
func Run(cfg Config, prefix []int, body func()) *Outcome {
	if S != nil {
		panic("vsched: nested Run")
	}
	if cfg.MaxSteps == 0 {
		cfg.MaxSteps = 200000
	}
	if cfg.Horizon == 0 {
		cfg.Horizon = time.Hour
	}
	s := &Sched{cfg: cfg, prefix: prefix, closed: map[unsafe.Pointer]bool{}, objs: map[unsafe.Pointer]*objState{}, prune: pruneHook,
		done: make(chan struct{}), abortAck: make(chan struct{}), rngState: 0x9E3779B97F4A7C15}
	S = s
	main := s.newThread("main", body)
	s.cur = main
	main.wake <- struct{}{}
	<-s.done
	// unwind all remaining threads, one at a time
	s.aborting = true
	for _, t := range s.threads {
		if !t.done {
			t.wake <- struct{}{}
			<-s.abortAck
		}
	}
	s.out.Steps = s.steps
	s.out.Clock = s.clock
	s.out.Trace = s.trace
	S = nil
	return &s.out
}

func (s *Sched) newThread(name string, fn func()) *Thread {
	t := &Thread{ID: len(s.threads), Name: name, wake: make(chan struct{}, 1)}
	s.threads = append(s.threads, t)
	go t.main(s, fn)
	return t
}

func (t *Thread) main(s *Sched, fn func()) {
	defer func() {
		r := recover()
		t.done = true
		if s.aborting {
			s.abortAck <- struct{}{}
			return
		}
		if r != nil {
			s.out.Kind = Panicked
			s.out.PanicVal = r
			s.out.Stack = string(debug.Stack())
			s.out.PanicSite = panicSite(s.out.Stack)
			s.end()
			return
		}
		if t.ID == 0 {
			if s.out.Kind != Failed {
				s.out.Kind = Completed
			}
			s.end()
			return
		}
		t.op = nil
		s.switchFrom(t)
	}()
	<-t.wake
	if s.aborting {
		return
	}
	fn()
}

// panicSite extracts the innermost non-runtime, non-vsched function from a stack.
func panicSite(stack string) string {
	lines := strings.Split(stack, "\n")
	seenPanic := false
	for _, l := range lines {
		if strings.HasPrefix(l, "panic(") {
			seenPanic = true
			continue
		}
		if !seenPanic || strings.HasPrefix(l, "\t") || l == "" {
			continue
		}
		if strings.HasPrefix(l, "runtime.") || strings.HasPrefix(l, "runtime/") || strings.HasPrefix(l, "verif/engine/vsched.") || strings.HasPrefix(l, "verif/engine/vsched/") ||
			strings.HasPrefix(l, "reflect.") || strings.HasPrefix(l, "encoding/binary.") {
			continue
		}
		if i := strings.LastIndex(l, "("); i > 0 {
			l = l[:i]
		}
		return l
	}
	return "unknown"
}

// end terminates the execution; called by the goroutine holding the baton.
func (s *Sched) end() {
	if s.ended {
		return
	}
	s.ended = true
	close(s.done)
}

// Go starts fn as a new thread.
func Go(fn func()) { GoNamed("", fn) }

func GoNamed(name string, fn func()) *Thread {
	s := S
	if s == nil {
		go fn()
		return nil
	}
	if s.aborting {
		return nil
	}
	if name == "" {
		// name the thread after the function containing the go statement
		name = fmt.Sprintf("t%d", len(s.threads))
		for skip := 2; skip < 5; skip++ {
			pc, _, _, ok := runtime.Caller(skip)
			if !ok {
				break
			}
			fn := runtime.FuncForPC(pc).Name()
			if strings.HasPrefix(fn, "verif/engine/vsched.") {
				continue
			}
			if i := strings.LastIndex(fn, "/"); i >= 0 {
				fn = fn[i+1:]
			}
			name += "@" + fn
			break
		}
	}
	t := s.newThread(name, fn)
	t.op = &Op{kind: opReady, desc: "start"}
	if s.cur != nil {
		s.event(s.cur, nil, false, 2) // spawn
		t.vc = s.cur.vc.clone()
	}
	return t
}

// GoDaemon starts a thread whose being blocked forever is not reported as deadlock.
func GoDaemon(name string, fn func()) *Thread {
	t := GoNamed(name, fn)
	if t != nil {
		t.daemon = true
	}
	return t
}

// Point is a scheduling point with an operation that is enabled when cond()
// holds (nil: always). It returns when this thread has been chosen to run.
func Point(desc string, cond func() bool) { PointObj(desc, cond, nil, false) }

// PointObj is Point for an operation that reads or writes the shared object obj.
func PointObj(desc string, cond func() bool, obj unsafe.Pointer, write bool) {
	s := S
	if s == nil {
		return
	}
	if s.aborting {
		return
	}
	op := &Op{kind: opReady, desc: desc, obj: obj, write: write}
	if cond != nil {
		op.kind = opCond
		op.cond = cond
	}
	s.park(op)
}

// park announces op for the current thread, makes a scheduling decision and
// returns once the current thread is chosen.
func (s *Sched) park(op *Op) {
	t := s.cur
	t.op = op
	s.switchFrom(t)
	if t.done {
		return
	}
}

// switchFrom makes scheduling decisions until a thread is chosen, then hands
// over the baton. If from is not done it waits to be woken again.
func (s *Sched) switchFrom(from *Thread) {
	next := s.schedule()
	if next == nil { // execution ended
		if from.done {
			return
		}
		<-from.wake
		if s.aborting {
			runtime.Goexit()
		}
		panic("vsched: woken after end without abort")
	}
	if next == from {
		return
	}
	next.wake <- struct{}{}
	if from.done {
		return
	}
	<-from.wake
	if s.aborting {
		runtime.Goexit()
	}
}

func (s *Sched) order(t *Thread) int {
	if t == s.cur {
		return -1
	}
	return t.ID
}

func (s *Sched) enabledOf(t *Thread, out []transition) []transition {
	op := t.op
	if op == nil || t.done {
		return out
	}
	switch op.kind {
	case opReady:
		return append(out, transition{t: t, caseIdx: 0})
	case opCond:
		if op.cond() {
			return append(out, transition{t: t, caseIdx: 0})
		}
	case opChan:
		n0 := len(out)
		for i := range op.cases {
			c := &op.cases[i]
			if c.ptr == nil {
				continue
			}
			if s.closed[c.ptr] {
				out = append(out, transition{t: t, caseIdx: i})
				continue
			}
			if c.capa > 0 {
				l := c.length()
				if (c.send && l < c.capa) || (!c.send && l > 0) {
					out = append(out, transition{t: t, caseIdx: i})
				}
				continue
			}
			// unbuffered: look for partners later in canonical order
			for _, u := range s.threads {
				if u == t || u.done || u.op == nil || u.op.kind != opChan {
					continue
				}
				if op.hasDefault && u.op.hasDefault {
					continue // two non-blocking selects never rendezvous
				}
				for j := range u.op.cases {
					d := &u.op.cases[j]
					if d.ptr == c.ptr && d.send != c.send {
						if s.order(t) < s.order(u) {
							out = append(out, transition{t: t, caseIdx: i, partner: u, partCase: j})
						} else {
							// listed under u; but t must still count as enabled
						}
					}
				}
			}
		}
		if len(out) == n0 && op.hasDefault {
			// default only if no case is ready at all (including as a later partner)
			if !s.hasEarlierPartner(t) {
				out = append(out, transition{t: t, caseIdx: -1})
			}
		}
	}
	return out
}

// hasEarlierPartner: t's unbuffered case is matched by a thread earlier in canonical order.
func (s *Sched) hasEarlierPartner(t *Thread) bool {
	for i := range t.op.cases {
		c := &t.op.cases[i]
		if c.ptr == nil || c.capa > 0 || s.closed[c.ptr] {
			continue
		}
		for _, u := range s.threads {
			if u == t || u.done || u.op == nil || u.op.kind != opChan || s.order(u) > s.order(t) || (t.op.hasDefault && u.op.hasDefault) {
				continue
			}
			for j := range u.op.cases {
				d := &u.op.cases[j]
				if d.ptr == c.ptr && d.send != c.send {
					return true
				}
			}
		}
	}
	return false
}

// schedule picks the next thread to run (nil if the execution ended).
func (s *Sched) schedule() *Thread {
	var trs []transition
	for {
		if s.ended {
			return nil
		}
		s.steps++
		if s.steps > s.cfg.MaxSteps {
			s.out.Kind = StepLimit
			s.end()
			return nil
		}
		trs = trs[:0]
		curEnabled := false
		if s.cur != nil && !s.cur.done {
			trs = s.enabledOf(s.cur, trs)
			curEnabled = len(trs) > 0 || (s.cur.op != nil && s.cur.op.kind == opChan && s.hasEarlierPartner(s.cur))
		}
		for _, t := range s.threads {
			if t != s.cur {
				trs = s.enabledOf(t, trs)
			}
		}
		tm := s.earliestTimer()
		if len(trs) == 0 {
			// a thread waiting for idleness runs as soon as nothing else can, before time advances
			var idle *Thread
			for _, t := range s.threads {
				if !t.done && t.op != nil && t.op.kind == opIdle {
					idle = t
					break
				}
			}
			if idle != nil && tm != nil && tm.when <= s.clock {
				// a timer that is already due fires before the system counts as idle
				s.fire(tm)
				continue
			}
			if idle != nil {
				s.barrier(12)
				idle.op = &Op{kind: opReady, desc: "idle"}
				s.cur = idle
				return idle
			}
			if tm != nil {
				s.fire(tm)
				continue
			}
			// quiescent
			var q *Thread
			for _, t := range s.threads {
				if !t.done && t.op != nil && t.op.kind == opQuiesce {
					q = t
					break
				}
			}
			if q != nil {
				s.barrier(5)
				q.op = &Op{kind: opReady, desc: "quiescent"}
				s.cur = q
				return q
			}
			s.out.Kind = Deadlock
			for _, t := range s.threads {
				if !t.done {
					d := "?"
					if t.op != nil {
						d = t.op.desc
					}
					s.out.Blocked = append(s.out.Blocked, fmt.Sprintf("%s[%d]: %s", t.Name, t.ID, d))
				}
			}
			s.end()
			return nil
		}
		n := len(trs)
		hasTimerAlt := tm != nil
		if hasTimerAlt {
			n++
		}
		idx := 0
		if n > 1 {
			if s.quiet > 0 {
				idx = 0
			} else {
				cp := ChoicePoint{N: n, Costs: make([]CostKind, n)}
				for i, tr := range trs {
					if s.cfg.DelayBounded {
						if i > 0 {
							cp.Costs[i] = CostP
						}
					} else if curEnabled && tr.t != s.cur && !(tr.partner != nil && tr.partner == s.cur) {
						cp.Costs[i] = CostP
					}
				}
				if hasTimerAlt {
					cp.Costs[n-1] = CostD
				}
				cp.FP = s.fingerprint()
				cp.AltID = make([]uint64, n)
				for i, tr := range trs {
					cp.AltID[i] = tr.id()
				}
				if hasTimerAlt {
					cp.AltID[n-1] = ^uint64(0)
				}
				pos := len(s.trace)
				if pos < len(s.prefix) {
					idx = s.prefix[pos]
					if idx >= n {
						panic(fmt.Sprintf("vsched: replay divergence at choice %d: want alt %d of %d", pos, idx, n))
					}
				} else if s.prune != nil && s.prune(&cp, pos) {
					s.out.Kind = Pruned
					s.trace = append(s.trace, cp)
					s.end()
					return nil
				}
				cp.Taken = idx
				s.trace = append(s.trace, cp)
				s.used[cp.Costs[idx]]++
			}
		}
		if hasTimerAlt && idx == n-1 {
			s.fire(tm)
			continue
		}
		tr := trs[idx]
		s.apply(tr)
		s.cur = tr.t
		return tr.t
	}
}

func (tr transition) id() uint64 {
	h := mix(0x452821E638D01377, uint64(tr.t.ID)+1)
	h = mix(h, uint64(tr.caseIdx+2))
	if tr.partner != nil {
		h = mix(h, uint64(tr.partner.ID)+1)
		h = mix(h, uint64(tr.partCase+2))
	}
	return h
}

func (s *Sched) apply(tr transition) {
	op := tr.t.op
	defer s.applyEvents(tr)
	if s.cfg.LogEvents {
		s.out.EventLog = append(s.out.EventLog, fmt.Sprintf("%d@%v %s[%d] %s case=%d", s.steps, s.clock, tr.t.Name, tr.t.ID, op.desc, tr.caseIdx))
	}
	if op.kind != opReady || !op.resRdv {
		// (a rendezvous partner resumed later keeps the case index the rendezvous gave it)
		op.resCase = tr.caseIdx
	}
	tr.t.obs = mix(tr.t.obs+0x51ED, uint64(tr.caseIdx+3)) // every step advances the thread's local state
	if tr.partner != nil {
		tr.partner.obs = mix(tr.partner.obs+0x51ED, uint64(tr.partCase+3))
		pop := tr.partner.op
		op.resRdv, pop.resRdv = true, true
		pop.resCase = tr.partCase
		if op.cases[tr.caseIdx].send {
			pop.resVal = op.cases[tr.caseIdx].val
		} else {
			op.resVal = pop.cases[tr.partCase].val
		}
		pop.kind = opReady
	}
}

// applyEvents records the happens-before events of a chosen transition.
func (s *Sched) applyEvents(tr transition) {
	t, op := tr.t, tr.t.op
	switch op.kind {
	case opChan:
		tag := uint64(tr.caseIdx + 16)
		if tr.partner != nil {
			t.vc = t.vc.join(tr.partner.vc)
		}
		// a select reads the state of all its channels and writes the chosen one
		for i := range op.cases {
			if i != tr.caseIdx && op.cases[i].ptr != nil && (len(op.cases) > 1) {
				s.event(t, op.cases[i].ptr, false, 3)
			}
		}
		if tr.caseIdx >= 0 {
			s.event(t, op.cases[tr.caseIdx].ptr, true, tag)
		} else {
			s.event(t, nil, false, tag)
		}
		if tr.partner != nil {
			s.event(tr.partner, op.cases[tr.caseIdx].ptr, true, uint64(tr.partCase+16))
			t.vc = t.vc.join(tr.partner.vc)
		}
	default:
		s.event(t, op.obj, op.write, 4)
	}
}

func (s *Sched) fingerprint() [2]uint64 {
	if s.cfg.StateHash == nil {
		return s.fp
	}
	var a uint64
	for _, t := range s.threads {
		h := mix(0x3F84D5B5B5470917, uint64(t.ID)+1)
		h = mix(h, t.obs)
		if t.done {
			h = mix(h, 0xD1310BA6)
		}
		a += h
	}
	return [2]uint64{a, s.cfg.StateHash()}
}

// Obs mixes a value observed by the running thread into its observational hash.
func Obs(v uint64) {
	s := S
	if s == nil || s.aborting || s.cur == nil {
		return
	}
	s.cur.obs = mix(s.cur.obs+0x9E37, v)
}

// Quiet makes subsequent choices take the default without being recorded
// (used for non-branching setup prefixes). Calls nest.
func Quiet(on bool) {
	if S == nil {
		return
	}
	// the quiet section's length is part of the state
	S.event(S.cur, nil, false, 6)
	if on {
		S.quiet++
	} else if S.quiet > 0 {
		S.quiet--
	}
}

// Choose is an environment choice point: alternative 0 is the default, the
// others cost one unit of kind (Free makes all alternatives free).
func Choose(n int, kind CostKind) int {
	s := S
	if s == nil || s.aborting || n <= 1 {
		return 0
	}
	if s.quiet > 0 {
		return 0
	}
	cp := ChoicePoint{N: n, Costs: make([]CostKind, n)}
	for i := 1; i < n; i++ {
		cp.Costs[i] = kind
	}
	cp.FP = s.fingerprint()
	cp.AltID = make([]uint64, n)
	for i := range cp.AltID {
		cp.AltID[i] = mix(0xBE5466CF34E90C6C, uint64(i)) ^ uint64(s.cur.ID+1)<<48
	}
	pos := len(s.trace)
	idx := 0
	if pos < len(s.prefix) {
		idx = s.prefix[pos]
		if idx >= n {
			panic(fmt.Sprintf("vsched: replay divergence at Choose %d: want alt %d of %d", pos, idx, n))
		}
	}
	cp.Taken = idx
	s.trace = append(s.trace, cp)
	s.used[kind] += btoi(idx != 0)
	if s.cfg.LogEvents {
		s.out.EventLog = append(s.out.EventLog, fmt.Sprintf("%d@%v %s[%d] choose %d of %d", s.steps, s.clock, s.cur.Name, s.cur.ID, idx, n))
	}
	s.event(s.cur, nil, false, 0x100+uint64(idx))
	return idx
}

// WaitQuiescent blocks the calling thread until no other thread is enabled and
// no timer within the horizon is pending.
func WaitQuiescent() {
	s := S
	if s == nil || s.aborting {
		return
	}
	s.park(&Op{kind: opQuiesce, desc: "wait-quiescent"})
}

// WaitIdle blocks the calling thread until no other thread is enabled at the current
// virtual time (pending timers do not matter): the system has settled for now.
func WaitIdle() {
	s := S
	if s == nil || s.aborting {
		return
	}
	s.park(&Op{kind: opIdle, desc: "wait-idle"})
}

// Settle lets d of virtual time pass and then waits until nothing else is runnable.
func Settle(d time.Duration) {
	Sleep(d)
	WaitIdle()
}

// Failf records a property violation observed inside the execution.
func Failf(key, format string, a ...interface{}) {
	s := S
	if s == nil {
		panic("vsched.Failf outside execution: " + fmt.Sprintf(format, a...))
	}
	if s.aborting {
		return
	}
	s.out.Failures = append(s.out.Failures, Failure{Key: key, Detail: fmt.Sprintf(format, a...)})
}

// Observe adds to the execution's observable outcome signature.
func Observe(format string, a ...interface{}) {
	s := S
	if s == nil || s.aborting {
		return
	}
	s.event(s.cur, unsafe.Pointer(&observeObj), true, 9)
	s.out.Observed = append(s.out.Observed, fmt.Sprintf(format, a...))
}

// Logf adds to the event log when enabled.
func Logf(format string, a ...interface{}) {
	s := S
	if s == nil || s.aborting || !s.cfg.LogEvents {
		return
	}
	s.out.EventLog = append(s.out.EventLog, fmt.Sprintf("%d@%v ", s.steps, s.clock)+fmt.Sprintf(format, a...))
}

// CurrentThread returns the running thread's id and name (-1 outside).
func CurrentThread() (int, string) {
	if S == nil || S.cur == nil {
		return -1, ""
	}
	return S.cur.ID, S.cur.Name
}

// LiveThreads lists threads that have not finished (for "all driver goroutines exited" oracles).
func LiveThreads() []string {
	var out []string
	if S == nil {
		return out
	}
	for _, t := range S.threads {
		if !t.done && t != S.cur {
			d := ""
			if t.op != nil {
				d = t.op.desc
			}
			out = append(out, fmt.Sprintf("%s[%d]: %s", t.Name, t.ID, d))
		}
	}
	sort.Strings(out)
	return out
}

// NextID returns a per-execution deterministic object id.
func NextID() int {
	if S == nil {
		return 0
	}
	S.objSeq++
	if !S.aborting {
		S.event(S.cur, unsafe.Pointer(&rngObj), true, 11)
	}
	return S.objSeq
}

// Rand64 is a deterministic per-execution generator (splitmix64).
func Rand64() uint64 {
	var st *uint64
	if S == nil {
		st = &fallbackRng
	} else {
		st = &S.rngState
		if !S.aborting {
			S.event(S.cur, unsafe.Pointer(&rngObj), true, 10)
		}
	}
	*st += 0x9E3779B97F4A7C15
	z := *st
	z = (z ^ (z >> 30)) * 0xBF58476D1CE4E5B9
	z = (z ^ (z >> 27)) * 0x94D049BB133111EB
	return z ^ (z >> 31)
}

var fallbackRng uint64 = 1

var observeObj, rngObj byte

func btoi(b bool) int {
	if b {
		return 1
	}
	return 0
}

// Deviations returns how many costed alternatives of each kind this execution has taken so far.
func Deviations() (p, d, f int) {
	if S == nil {
		return
	}
	return S.used[CostP], S.used[CostD], S.used[CostF]
}

// ChoicesSoFar returns the choice sequence of the current execution up to now (for debugging / replay files).
func ChoicesSoFar() []int {
	if S == nil {
		return nil
	}
	return taken(S.trace)
}
