package vsched

import "unsafe"

// Happens-before tracking (CHESS-style state fingerprints).
//
// Every executed operation is an event of its thread with a vector clock.
// Two operations on the same object conflict unless both are reads. The
// fingerprint of an execution prefix is the commutative sum of the hashes of
// (thread, index, tag, vector clock) of its events, so two prefixes that are
// linearisations of the same partial order (hence reach the same state, the
// program being deterministic between scheduling points and data-race free)
// have the same fingerprint. Index 0 of a vector clock is the scheduler's own
// pseudo-thread (timer firings, quiescence), which synchronises with everyone.

type vclock []uint32

func (v vclock) join(o vclock) vclock {
	if len(o) > len(v) {
		n := make(vclock, len(o))
		copy(n, v)
		v = n
	}
	for i, x := range o {
		if x > v[i] {
			v[i] = x
		}
	}
	return v
}

func (v vclock) clone() vclock { return append(vclock(nil), v...) }

type objState struct {
	w, r vclock
}

func mix(h, x uint64) uint64 {
	h ^= x
	h *= 0x9E3779B97F4A7C15
	h ^= h >> 29
	return h
}

func (s *Sched) hashEvent(tid int, tag uint64, vc vclock) {
	h1 := mix(0x243F6A8885A308D3, uint64(tid)+1)
	h2 := mix(0x13198A2E03707344, uint64(tid)+7)
	h1 = mix(h1, tag)
	h2 = mix(h2, tag^0xA4093822299F31D0)
	for i, x := range vc {
		if x != 0 {
			h1 = mix(h1, uint64(i)<<32|uint64(x))
			h2 = mix(h2, uint64(x)<<32|uint64(i))
		}
	}
	s.fp[0] += h1
	s.fp[1] += h2
	s.nev++
}

// event records an operation of thread t on obj.
func (s *Sched) event(t *Thread, obj unsafe.Pointer, write bool, tag uint64) {
	if t == nil || s.cfg.StateHash != nil {
		return
	}
	idx := t.ID + 1
	if obj != nil {
		st := s.objs[obj]
		if st == nil {
			st = &objState{}
			s.objs[obj] = st
		}
		t.vc = t.vc.join(st.w)
		if write {
			t.vc = t.vc.join(st.r)
		}
		if len(t.vc) <= idx {
			t.vc = t.vc.join(make(vclock, idx+1))
		}
		t.vc[idx]++
		if write {
			st.w = t.vc.clone()
			st.r = nil
		} else {
			st.r = st.r.join(t.vc)
		}
	} else {
		if len(t.vc) <= idx {
			t.vc = t.vc.join(make(vclock, idx+1))
		}
		t.vc[idx]++
	}
	s.hashEvent(idx, tag, t.vc)
}

// barrier records a scheduler event that synchronises with every thread.
func (s *Sched) barrier(tag uint64) {
	if s.cfg.StateHash != nil {
		return
	}
	g := s.gvc
	for _, t := range s.threads {
		if !t.done {
			g = g.join(t.vc)
		}
	}
	if len(g) == 0 {
		g = make(vclock, 1)
	}
	g[0]++
	s.gvc = g
	for _, t := range s.threads {
		if !t.done {
			t.vc = g.clone()
		}
	}
	s.hashEvent(0, tag, g)
}

// Touch records a non-yielding operation of the running thread on a shared
// object (release operations, pool operations, ...).
func Touch(obj unsafe.Pointer, write bool) {
	s := S
	if s == nil || s.aborting {
		return
	}
	s.event(s.cur, obj, write, 1)
}

// TouchTag is Touch with a value that distinguishes outcomes of the operation.
func TouchTag(obj unsafe.Pointer, write bool, tag uint64) {
	s := S
	if s == nil || s.aborting {
		return
	}
	s.event(s.cur, obj, write, tag)
}

// pruneHook is installed by the explorer for the duration of an exploration.
var pruneHook func(cp *ChoicePoint, pos int) bool
