package vsched

import (
	"time"
	"unsafe"
)

// Timer is a scheduler-owned virtual timer.
type Timer struct {
	when   time.Duration // virtual deadline
	seq    int
	active bool
	period time.Duration // >0: ticker
	C      chan time.Time
	fn     func() // inline, non-blocking, runs in scheduler context
	spawn  func() // runs as a new thread (AfterFunc)
	desc   string
}

var timersObj byte

func (s *Sched) addTimer(t *Timer) {
	if s.cur != nil {
		s.event(s.cur, unsafe.Pointer(&timersObj), true, 7)
	}
	s.timerSeq++
	t.seq = s.timerSeq
	t.active = true
	s.timers = append(s.timers, t)
}

func (s *Sched) removeTimer(t *Timer) {
	for i, x := range s.timers {
		if x == t {
			s.timers = append(s.timers[:i], s.timers[i+1:]...)
			break
		}
	}
	t.active = false
}

// earliestTimer returns the pending timer with the smallest (deadline, seq) within the horizon.
func (s *Sched) earliestTimer() *Timer {
	var best *Timer
	for _, t := range s.timers {
		if t.when > s.cfg.Horizon {
			continue
		}
		if best == nil || t.when < best.when || (t.when == best.when && t.seq < best.seq) {
			best = t
		}
	}
	return best
}

func (s *Sched) fire(t *Timer) {
	if t.when > s.clock {
		s.clock = t.when
	}
	if s.cfg.LogEvents {
		s.out.EventLog = append(s.out.EventLog, "fire "+t.desc+" @"+s.clock.String())
	}
	s.barrier(0x200 + uint64(s.clock))
	if t.period > 0 {
		t.when += t.period
		s.timerSeq++
		t.seq = s.timerSeq
	} else {
		s.removeTimer(t)
	}
	if t.C != nil {
		select {
		case t.C <- epoch.Add(s.clock):
		default:
		}
	}
	if t.fn != nil {
		cur := s.cur
		s.cur = nil // scheduler-owned callback: its effects are ordered by the barrier above
		t.fn()
		s.cur = cur
	}
	if t.spawn != nil {
		th := s.newThread("afterfunc:"+t.desc, t.spawn)
		th.op = &Op{kind: opReady, desc: "start"}
		th.vc = s.gvc.clone()
	}
}

// NewTimer creates a channel timer firing after d (virtual).
func NewTimer(d time.Duration, desc string) *Timer {
	t := &Timer{C: make(chan time.Time, 1), desc: desc}
	s := S
	if s == nil || s.aborting {
		return t
	}
	if d < 0 {
		d = 0
	}
	t.when = s.clock + d
	s.addTimer(t)
	return t
}

// NewTicker creates a periodic channel timer.
func NewTicker(d time.Duration, desc string) *Timer {
	t := NewTimer(d, desc)
	t.period = d
	return t
}

// AfterFuncInline arms a timer whose callback runs inside the scheduler (must not block).
func AfterFuncInline(d time.Duration, desc string, fn func()) *Timer {
	t := &Timer{fn: fn, desc: desc}
	s := S
	if s == nil || s.aborting {
		return t
	}
	if d < 0 {
		d = 0
	}
	t.when = s.clock + d
	s.addTimer(t)
	return t
}

// AfterFuncThread arms a timer whose callback runs as a new thread.
func AfterFuncThread(d time.Duration, desc string, fn func()) *Timer {
	t := &Timer{spawn: fn, desc: desc}
	s := S
	if s == nil || s.aborting {
		return t
	}
	if d < 0 {
		d = 0
	}
	t.when = s.clock + d
	s.addTimer(t)
	return t
}

// Stop deactivates the timer; reports whether it was active.
func (t *Timer) Stop() bool {
	s := S
	if s == nil || s.aborting {
		return false
	}
	PointObj("timer.Stop", nil, unsafe.Pointer(&timersObj), true)
	was := t.active
	if was {
		s.removeTimer(t)
	}
	return was
}

// Reset re-arms the timer; reports whether it had been active.
func (t *Timer) Reset(d time.Duration) bool {
	s := S
	if s == nil || s.aborting {
		return false
	}
	PointObj("timer.Reset", nil, unsafe.Pointer(&timersObj), true)
	was := t.active
	if was {
		s.removeTimer(t)
	}
	if d < 0 {
		d = 0
	}
	t.when = s.clock + d
	s.addTimer(t)
	return was
}

// Sleep blocks the calling thread for d of virtual time.
func Sleep(d time.Duration) {
	s := S
	if s == nil || s.aborting {
		return
	}
	fired := false
	AfterFuncInline(d, "sleep", func() { fired = true })
	s.park(&Op{kind: opCond, cond: func() bool { return fired }, desc: "sleep"})
}

// PendingTimers is the number of armed timers (for oracles).
func PendingTimers() int {
	if S == nil {
		return 0
	}
	return len(S.timers)
}

// StopNoPoint deactivates the timer from scheduler-owned code.
func (t *Timer) StopNoPoint() {
	s := S
	if s == nil || s.aborting || !t.active {
		return
	}
	s.removeTimer(t)
}
