package vsched

import (
	"fmt"
	"reflect"
	"sort"
	"unsafe"
)

func chanPtr[T any](ch <-chan T) unsafe.Pointer {
	return *(*unsafe.Pointer)(unsafe.Pointer(&ch))
}

// Case describes one select case for Select.
type Case = chanCase

func RecvCase[T any](ch <-chan T) Case {
	if ch == nil {
		return Case{}
	}
	return Case{ptr: chanPtr(ch), length: func() int { return len(ch) }, capa: cap(ch)}
}

// Nil stands for an untyped nil send value in rewritten code.
type Nil struct{}

// conv converts a send value to the channel's element type (identity in the
// common case; interface conversion or constant conversion otherwise).
func conv[T any](v interface{}) T {
	if v == nil {
		return zero[T]()
	}
	if _, isNil := v.(Nil); isNil {
		return zero[T]()
	}
	if t, ok := v.(T); ok {
		return t
	}
	rt := reflect.TypeOf((*T)(nil)).Elem()
	return reflect.ValueOf(v).Convert(rt).Interface().(T)
}

func SendCase[T any, V any](ch chan<- T, v V) Case {
	if ch == nil {
		return Case{send: true}
	}
	return Case{send: true, ptr: *(*unsafe.Pointer)(unsafe.Pointer(&ch)), length: func() int { return len(ch) }, capa: cap(ch), val: conv[T](v)}
}

// Select is the scheduling point of a select statement; it returns the index of
// the case to perform (-1: default). The caller then completes the case with
// SelRecv/SelRecv2/SelSend on the same channel.
func Select(hasDefault bool, cases ...Case) int {
	s := S
	if s == nil {
		panic("vsched.Select outside an execution")
	}
	if s.aborting {
		if hasDefault {
			return -1
		}
		// unwinding: pretend the first case fired; SelRecv returns zero values
		return 0
	}
	op := &Op{kind: opChan, cases: cases, hasDefault: hasDefault, desc: "select"}
	s.park(op)
	s.last = op
	return op.resCase
}

func zero[T any]() (z T) { return }

func fromSlot[T any](v interface{}) T {
	return conv[T](v)
}

// SelRecv completes a receive case chosen by Select.
func SelRecv[T any](ch <-chan T) T {
	v, _ := SelRecv2(ch)
	return v
}

func SelRecv2[T any](ch <-chan T) (T, bool) {
	s := S
	if s == nil {
		v, ok := <-ch
		return v, ok
	}
	if s.aborting {
		return zero[T](), false
	}
	op := s.last
	s.last = nil
	if op != nil && op.resRdv {
		return fromSlot[T](op.resVal), true
	}
	// buffered with data, or closed: native receive cannot block
	select {
	case v, ok := <-ch:
		return v, ok
	default:
		panic("vsched: receive chosen by scheduler would block (uninstrumented channel use?)")
	}
}

// SelSend completes a send case chosen by Select.
func SelSend[T any, V any](ch chan<- T, v0 V) {
	s := S
	v := conv[T](v0)
	if s == nil {
		ch <- v
		return
	}
	if s.aborting {
		return
	}
	op := s.last
	s.last = nil
	if op != nil && op.resRdv {
		return
	}
	if s.closed[*(*unsafe.Pointer)(unsafe.Pointer(&ch))] {
		panic("send on closed channel")
	}
	select {
	case ch <- v:
	default:
		panic("vsched: send chosen by scheduler would block (uninstrumented channel use?)")
	}
}

// Recv is `<-ch`.
func Recv[T any](ch <-chan T) T {
	v, _ := Recv2(ch)
	return v
}

// Recv2 is `v, ok := <-ch`.
func Recv2[T any](ch <-chan T) (T, bool) {
	s := S
	if s == nil {
		v, ok := <-ch
		return v, ok
	}
	if s.aborting {
		return zero[T](), false
	}
	op := &Op{kind: opChan, cases: []Case{RecvCase(ch)}, desc: "recv"}
	s.park(op)
	s.last = op
	return SelRecv2(ch)
}

// Send is `ch <- v`.
func Send[T any, V any](ch chan<- T, v0 V) {
	s := S
	v := conv[T](v0)
	if s == nil {
		ch <- v
		return
	}
	if s.aborting {
		return
	}
	op := &Op{kind: opChan, cases: []Case{SendCase(ch, v)}, desc: "send"}
	s.park(op)
	s.last = op
	SelSend(ch, v)
}

// Close is `close(ch)`.
func Close[T any](ch chan<- T) {
	s := S
	if s == nil {
		close(ch)
		return
	}
	if s.aborting {
		return
	}
	PointObj("close", nil, *(*unsafe.Pointer)(unsafe.Pointer(&ch)), true)
	s.closeChan(*(*unsafe.Pointer)(unsafe.Pointer(&ch)), ch, func() { close(ch) })
}

func (s *Sched) closeChan(p unsafe.Pointer, keep interface{}, native func()) {
	if p == nil {
		panic("close of nil channel")
	}
	if s.closed[p] {
		panic("close of closed channel")
	}
	s.closed[p] = true
	s.keep = append(s.keep, keep) // keeps the address from being reused within this execution
	native()
}

// CloseNoPoint closes a channel from scheduler-owned code (timers, contexts).
func CloseNoPoint[T any](ch chan<- T) {
	s := S
	if s == nil {
		close(ch)
		return
	}
	if s.aborting {
		return
	}
	if s.cur != nil {
		s.event(s.cur, *(*unsafe.Pointer)(unsafe.Pointer(&ch)), true, 8)
	}
	s.closeChan(*(*unsafe.Pointer)(unsafe.Pointer(&ch)), ch, func() { close(ch) })
}

// IsClosed reports whether the scheduler has seen ch closed.
func IsClosed[T any](ch <-chan T) bool {
	if S == nil {
		return false
	}
	return S.closed[chanPtr(ch)]
}

// SortedKeys returns the keys of m in a deterministic order.
func SortedKeys[K comparable, V any](m map[K]V) []K {
	keys := make([]K, 0, len(m))
	for k := range m {
		keys = append(keys, k)
	}
	sort.Slice(keys, func(i, j int) bool { return lessAny(keys[i], keys[j]) })
	return keys
}

func lessAny(a, b interface{}) bool {
	switch x := a.(type) {
	case string:
		return x < b.(string)
	case int:
		return x < b.(int)
	case int32:
		return x < b.(int32)
	case int64:
		return x < b.(int64)
	case uint64:
		return x < b.(uint64)
	case uint32:
		return x < b.(uint32)
	}
	va, vb := reflect.ValueOf(a), reflect.ValueOf(b)
	switch va.Kind() {
	case reflect.String:
		return va.String() < vb.String()
	case reflect.Int, reflect.Int8, reflect.Int16, reflect.Int32, reflect.Int64:
		return va.Int() < vb.Int()
	case reflect.Uint, reflect.Uint8, reflect.Uint16, reflect.Uint32, reflect.Uint64:
		return va.Uint() < vb.Uint()
	}
	switch va.Kind() {
	case reflect.Ptr, reflect.Chan, reflect.Func, reflect.Interface, reflect.UnsafePointer, reflect.Map, reflect.Slice:
		panic(fmt.Sprintf("vsched.SortedKeys: map key type %T has no deterministic order", a))
	}
	return fmt.Sprintf("%#v", a) < fmt.Sprintf("%#v", b)
}
