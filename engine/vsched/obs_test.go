package vsched_test

import (
	"testing"

	vs "verif/engine/vsched"
	"verif/engine/vsched/vatomic"
	"verif/engine/vsched/vsync"
)

func TestObsHashToy(t *testing.T) {
	if testing.Short() {
		t.Skip("long")
	}
	var x *int32
	sc := &vs.Scenario{Name: "obs", Bounds: vs.Bounds{P: -1}, Cfg: vs.Config{StateHash: func() uint64 {
		if x == nil {
			return 0
		}
		return uint64(*x)
	}}, Body: func() {
		var v int32
		x = &v
		var wg vsync.WaitGroup
		for i := int32(1); i <= 3; i++ {
			i := i
			wg.Add(1)
			vs.Go(func() {
				defer wg.Done()
				for k := 0; k < 3; k++ {
					o := vatomic.LoadInt32(x)
					vatomic.CompareAndSwapInt32(x, o, o+i)
				}
			})
		}
		wg.Wait()
		vs.Observe("x=%d", v)
	}}
	r := vs.Explore(sc, 0, 1)
	t.Logf("exec=%d states=%d pruned=%d outcomes=%d", r.Executions, r.States, r.Pruned, len(r.Outcomes))
}
