package vsched_test

import (
	"fmt"
	"testing"
	"time"

	vs "verif/engine/vsched"
	"verif/engine/vsched/vatomic"
	"verif/engine/vsched/vsync"
	"verif/engine/vsched/vtime"
)

func outcomes(r *vs.Result) map[string]int64 {
	m := map[string]int64{}
	for k, n := range r.Outcomes {
		m[r.OutcomeText[k]] += n
	}
	return m
}

func TestLostUpdate(t *testing.T) {
	mk := func(p int) *vs.Scenario {
		return &vs.Scenario{Name: "lost", Bounds: vs.Bounds{P: p, D: 0, F: 0}, Body: func() {
			var x int32
			var wg vsync.WaitGroup
			for i := 0; i < 2; i++ {
				wg.Add(1)
				vs.Go(func() {
					v := vatomic.LoadInt32(&x)
					vatomic.StoreInt32(&x, v+1)
					wg.Done()
				})
			}
			wg.Wait()
			vs.Observe("x=%d", x)
		}}
	}
	r0 := vs.Explore(mk(0), 0, 1)
	if len(r0.Outcomes) != 1 {
		t.Fatalf("P0: %v", outcomes(r0))
	}
	r1 := vs.Explore(mk(1), 0, 1)
	if len(r1.Outcomes) != 2 {
		t.Fatalf("P1 should see lost update: %v", outcomes(r1))
	}
	rinf := vs.Explore(mk(-1), 0, 1)
	if len(rinf.Outcomes) != 2 {
		t.Fatalf("Pinf: %v", outcomes(rinf))
	}
	// 2 threads x 2 atomic steps each: C(4,2)=6 interleavings of the steps
	t.Logf("P0 exec=%d P1 exec=%d Pinf exec=%d nodes=%d", r0.Executions, r1.Executions, rinf.Executions, rinf.Nodes)
	if rinf.Executions < 6 {
		t.Fatalf("Pinf explored only %d executions", rinf.Executions)
	}
}

func TestDeadlockABBA(t *testing.T) {
	mk := func(p int) *vs.Scenario {
		return &vs.Scenario{Name: "abba", Bounds: vs.Bounds{P: p}, Body: func() {
			var a, b vsync.Mutex
			var wg vsync.WaitGroup
			wg.Add(2)
			vs.Go(func() { a.Lock(); b.Lock(); b.Unlock(); a.Unlock(); wg.Done() })
			vs.Go(func() { b.Lock(); a.Lock(); a.Unlock(); b.Unlock(); wg.Done() })
			wg.Wait()
		}}
	}
	if r := vs.Explore(mk(0), 0, 1); len(r.Violations) != 0 {
		t.Fatalf("P0 found %v", r.Violations)
	}
	r := vs.Explore(mk(1), 0, 1)
	if r.Violations["deadlock:abba"] == nil {
		t.Fatalf("P1 missed deadlock: %+v", r)
	}
	// replay
	v := r.Violations["deadlock:abba"]
	o := vs.Run(vs.Config{}, v.Choices, mk(1).Body)
	if o.Kind != vs.Deadlock {
		t.Fatalf("replay gave %v", o.Kind)
	}
}

func TestSelectBothReady(t *testing.T) {
	sc := &vs.Scenario{Name: "sel", Bounds: vs.Bounds{}, Body: func() {
		a := make(chan int, 1)
		b := make(chan int, 1)
		a <- 1
		b <- 2
		switch vs.Select(false, vs.RecvCase[int](a), vs.RecvCase[int](b)) {
		case 0:
			vs.Observe("a=%d", vs.SelRecv[int](a))
		case 1:
			vs.Observe("b=%d", vs.SelRecv[int](b))
		}
	}}
	r := vs.Explore(sc, 0, 1)
	if len(r.Outcomes) != 2 || r.Executions != 2 {
		t.Fatalf("%v exec=%d", outcomes(r), r.Executions)
	}
}

func TestRendezvousTwoReceivers(t *testing.T) {
	sc := &vs.Scenario{Name: "rdv", Bounds: vs.Bounds{P: -1}, Body: func() {
		ch := make(chan int)
		res := make(chan string, 2)
		for i := 0; i < 2; i++ {
			i := i
			vs.Go(func() {
				v, ok := vs.Recv2[int](ch)
				vs.Send(res, fmt.Sprintf("r%d:%d:%v", i, v, ok))
			})
		}
		vs.Send(ch, 7)
		first := vs.Recv[string](res)
		vs.Close(ch)
		second := vs.Recv[string](res)
		vs.Observe("%s %s", first, second)
	}}
	r := vs.Explore(sc, 0, 1)
	o := outcomes(r)
	if len(o) != 2 {
		t.Fatalf("want 2 outcomes (either receiver gets 7): %v", o)
	}
	if len(r.Violations) != 0 {
		t.Fatalf("%v", r.Violations)
	}
}

func TestTimerVsMessage(t *testing.T) {
	mk := func(d int) *vs.Scenario {
		return &vs.Scenario{Name: "tmr", Bounds: vs.Bounds{P: 0, D: d}, Body: func() {
			msg := make(chan int, 1)
			tm := vtime.NewTimer(100 * time.Millisecond)
			vs.Go(func() { vs.Send(msg, 1) })
			switch vs.Select(false, vs.RecvCase[int](msg), vs.RecvCase[time.Time](tm.C)) {
			case 0:
				vs.SelRecv[int](msg)
				vs.Observe("msg")
			case 1:
				vs.SelRecv[time.Time](tm.C)
				vs.Observe("timeout at %v", vs.Clock())
			}
		}}
	}
	if r := vs.Explore(mk(0), 0, 1); len(r.Outcomes) != 1 {
		t.Fatalf("D0: %v", outcomes(r))
	}
	if r := vs.Explore(mk(1), 0, 1); len(r.Outcomes) != 2 {
		t.Fatalf("D1: %v", outcomes(r))
	}
}

func TestRecursiveRLock(t *testing.T) {
	sc := &vs.Scenario{Name: "rrlock", Bounds: vs.Bounds{P: 2}, Body: func() {
		var m vsync.RWMutex
		var wg vsync.WaitGroup
		wg.Add(2)
		vs.Go(func() { m.RLock(); m.RLock(); m.RUnlock(); m.RUnlock(); wg.Done() })
		vs.Go(func() { m.Lock(); m.Unlock(); wg.Done() })
		wg.Wait()
	}}
	r := vs.Explore(sc, 0, 1)
	if r.Violations["deadlock:rrlock"] == nil {
		t.Fatalf("recursive RLock with pending writer must deadlock in some schedule: %+v", outcomes(r))
	}
}

func TestPanicCaptured(t *testing.T) {
	sc := &vs.Scenario{Name: "pan", Body: func() {
		done := make(chan struct{})
		vs.Go(func() {
			defer vs.Close(done)
			var p *int
			_ = *p
		})
		vs.Recv[struct{}](done)
	}}
	r := vs.Explore(sc, 0, 1)
	if len(r.Violations) != 1 {
		t.Fatalf("%+v", r.Violations)
	}
	for k := range r.Violations {
		t.Log(k)
	}
}

func TestSleepAndQuiescent(t *testing.T) {
	sc := &vs.Scenario{Name: "sleep", Cfg: vs.Config{Horizon: time.Second}, Body: func() {
		n := 0
		vs.GoDaemon("ticker", func() {
			tk := vtime.NewTicker(300 * time.Millisecond)
			for {
				vs.Recv[time.Time](tk.C)
				n++
			}
		})
		vtime.Sleep(50 * time.Millisecond)
		vs.WaitQuiescent()
		vs.Observe("ticks=%d clock=%v", n, vs.Clock())
	}}
	r := vs.Explore(sc, 0, 1)
	o := outcomes(r)
	if len(o) != 1 || o["completed|ticks=3 clock=900ms"] == 0 {
		t.Fatalf("%v %v", o, r.Violations)
	}
}

// The state cache must not change the set of observable outcomes.
func TestCacheSoundOnToy(t *testing.T) {
	if testing.Short() {
		t.Skip("3-thread uncached exploration takes ~1 min")
	}
	mk := func(nocache bool) *vs.Scenario {
		return &vs.Scenario{Name: "toy3", NoCache: nocache, Bounds: vs.Bounds{P: -1}, Body: func() {
			var x, y int32
			var mu vsync.Mutex
			ch := make(chan int32, 1)
			var wg vsync.WaitGroup
			for i := int32(1); i <= 3; i++ {
				i := i
				wg.Add(1)
				vs.Go(func() {
					defer wg.Done()
					v := vatomic.LoadInt32(&x)
					mu.Lock()
					y = y*2 + i
					mu.Unlock()
					vatomic.StoreInt32(&x, v+i)
					switch vs.Select(true, vs.SendCase(ch, i)) {
					case 0:
						vs.SelSend(ch, i)
					}
				})
			}
			wg.Wait()
			vs.Observe("x=%d y=%d ch=%d", x, y, vs.Recv[int32](ch))
		}}
	}
	a := vs.Explore(mk(true), 0, 1)
	b := vs.Explore(mk(false), 0, 1)
	oa, ob := outcomes(a), outcomes(b)
	if len(oa) != len(ob) {
		t.Fatalf("outcome sets differ: nocache=%d cache=%d", len(oa), len(ob))
	}
	for k := range oa {
		if ob[k] == 0 {
			t.Fatalf("cache lost outcome %s", k)
		}
	}
	t.Logf("nocache exec=%d, cache exec=%d pruned=%d states=%d, outcomes=%d", a.Executions, b.Executions, b.Pruned, b.States, len(oa))
	if b.Executions >= a.Executions {
		t.Fatalf("cache did not reduce the search")
	}
}

// A select whose send case (index 2) is completed as the passive partner of a
// rendezvous must report index 2, not 0.
func TestSelectPartnerCaseIndex(t *testing.T) {
	sc := &vs.Scenario{Name: "partner", Bounds: vs.Bounds{P: -1}, Body: func() {
		never1 := make(chan int)
		never2 := make(chan int)
		ch := make(chan int)
		got := make(chan int, 1)
		vs.Go(func() {
			switch i := vs.Select(false, vs.RecvCase[int](never1), vs.RecvCase[int](never2), vs.SendCase(ch, 7)); i {
			case 2:
				vs.SelSend(ch, 7)
				vs.Send(got, 2)
			default:
				vs.Send(got, i)
			}
		})
		v := vs.Recv[int](ch)
		idx := vs.Recv[int](got)
		vs.Observe("v=%d idx=%d", v, idx)
	}}
	r := vs.Explore(sc, 0, 1)
	o := outcomes(r)
	if len(o) != 1 || o["completed|v=7 idx=2"] == 0 {
		t.Fatalf("%v", o)
	}
}
