// Package vtime mirrors the parts of package time that gocql uses; clocks and timers are virtual.
package vtime

import (
	"time"

	"verif/engine/vsched"
)

type (
	Time     = time.Time
	Duration = time.Duration
	Month    = time.Month
	Location = time.Location
	Weekday  = time.Weekday
)

const (
	Nanosecond  = time.Nanosecond
	Microsecond = time.Microsecond
	Millisecond = time.Millisecond
	Second      = time.Second
	Minute      = time.Minute
	Hour        = time.Hour
	January     = time.January
	October     = time.October
	RFC3339     = time.RFC3339
	RFC3339Nano = time.RFC3339Nano
)

var (
	UTC   = time.UTC
	Local = time.Local
)

func Date(y int, m Month, d, h, mi, s, ns int, loc *Location) Time {
	return time.Date(y, m, d, h, mi, s, ns, loc)
}
func Unix(s, ns int64) Time                    { return time.Unix(s, ns) }
func UnixMilli(ms int64) Time                  { return time.UnixMilli(ms) }
func Parse(l, v string) (Time, error)          { return time.Parse(l, v) }
func ParseDuration(s string) (Duration, error) { return time.ParseDuration(s) }

func Now() Time             { return vsched.Now() }
func Since(t Time) Duration { return vsched.Now().Sub(t) }
func Until(t Time) Duration { return t.Sub(vsched.Now()) }
func Sleep(d Duration)      { vsched.Sleep(d) }

type Timer struct {
	C <-chan Time
	t *vsched.Timer
}

func NewTimer(d Duration) *Timer {
	t := vsched.NewTimer(d, "timer")
	return &Timer{C: t.C, t: t}
}

func (t *Timer) Stop() bool            { return t.t.Stop() }
func (t *Timer) Reset(d Duration) bool { return t.t.Reset(d) }

func After(d Duration) <-chan Time { return vsched.NewTimer(d, "after").C }

func AfterFunc(d Duration, f func()) *Timer {
	t := vsched.AfterFuncThread(d, "afterfunc", f)
	return &Timer{t: t}
}

type Ticker struct {
	C <-chan Time
	t *vsched.Timer
}

func NewTicker(d Duration) *Ticker {
	if d <= 0 {
		panic("non-positive interval for NewTicker")
	}
	t := vsched.NewTicker(d, "ticker")
	return &Ticker{C: t.C, t: t}
}

func (t *Ticker) Stop() { t.t.Stop() }
