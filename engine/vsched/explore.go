package vsched

import (
	"crypto/sha1"
	"encoding/json"
	"fmt"
	"os"
	"os/exec"
	"sort"
	"strings"
	"sync"
	"time"
)

// Bounds limits the deviations explored (-1: unbounded).
// T (if > 0) additionally bounds the total number of deviations P+D+F.
type Bounds struct{ P, D, F, T int }

func (b Bounds) String() string {
	if b.T > 0 {
		return fmt.Sprintf("P%d D%d F%d T%d", b.P, b.D, b.F, b.T)
	}
	return fmt.Sprintf("P%d D%d F%d", b.P, b.D, b.F)
}

type Scenario struct {
	Name   string
	Cfg    Config
	Body   func()
	Reset  func() // restores global state before every execution
	Bounds Bounds
	// OnOutcome may turn an outcome into failures or accept it. Default: deadlock
	// and panic are failures; step-limit only makes the result non-exhaustive.
	OnOutcome     func(o *Outcome) []Failure
	NoCache       bool // disable happens-before state caching
	MaxExecutions int64
	Budget        time.Duration // wall-clock budget; hitting it => Truncated (never a violation)
}

type Violation struct {
	Key      string   `json:"key"`
	Detail   string   `json:"detail"`
	Scenario string   `json:"scenario"`
	Choices  []int    `json:"choices"`
	Events   []string `json:"events,omitempty"`
	Count    int64    `json:"count"`
}

type Result struct {
	Scenario     string                `json:"scenario"`
	Bounds       string                `json:"bounds"`
	Executions   int64                 `json:"executions"`
	Steps        int64                 `json:"steps"`
	Nodes        int64                 `json:"nodes"`  // distinct choice-sequence prefixes visited
	States       int64                 `json:"states"` // distinct happens-before fingerprints at choice points
	Pruned       int64                 `json:"pruned"` // subtrees skipped because (state, transition) was already explored
	MaxDepth     int                   `json:"max_depth"`
	Truncated    bool                  `json:"truncated"`
	StepLimited  int64                 `json:"step_limited"`
	Outcomes     map[string]int64      `json:"outcomes"` // outcome signature -> executions
	OutcomeText  map[string]string     `json:"outcome_text"`
	Violations   map[string]*Violation `json:"violations"`
	Infra        []string              `json:"infra,omitempty"`
	SampleTraces [][]int               `json:"sample_traces,omitempty"`
}

func newResult(sc *Scenario) *Result {
	return &Result{Scenario: sc.Name, Bounds: sc.Bounds.String(), Outcomes: map[string]int64{}, OutcomeText: map[string]string{}, Violations: map[string]*Violation{}}
}

type work struct {
	prefix []int
	cost   [4]int
}

func within(c [4]int, b Bounds) bool {
	return (b.P < 0 || c[CostP] <= b.P) && (b.D < 0 || c[CostD] <= b.D) && (b.F < 0 || c[CostF] <= b.F) &&
		(b.T <= 0 || c[CostP]+c[CostD]+c[CostF] <= b.T)
}

func (sc *Scenario) runOnce(prefix []int, log bool) *Outcome {
	if sc.Reset != nil {
		sc.Reset()
	}
	cfg := sc.Cfg
	cfg.LogEvents = log
	if log { // confirmation / determinism replays run to completion, unpruned
		saved := pruneHook
		pruneHook = nil
		defer func() { pruneHook = saved }()
	}
	return Run(cfg, prefix, sc.Body)
}

func (sc *Scenario) failuresOf(o *Outcome) []Failure {
	var fs []Failure
	fs = append(fs, o.Failures...)
	if sc.OnOutcome != nil {
		fs = append(fs, sc.OnOutcome(o)...)
		return fs
	}
	switch o.Kind {
	case Deadlock:
		fs = append(fs, Failure{Key: "deadlock:" + sc.Name, Detail: "blocked: " + strings.Join(o.Blocked, "; ")})
	case Panicked:
		fs = append(fs, Failure{Key: "panic:" + o.PanicSite, Detail: fmt.Sprintf("%v\n%s", o.PanicVal, o.Stack)})
	}
	return fs
}

func sig(o *Outcome) (string, string) {
	txt := o.Kind.String() + "|" + strings.Join(o.Observed, "|")
	h := sha1.Sum([]byte(txt))
	return fmt.Sprintf("%x", h[:8]), txt
}

// Explore enumerates all executions of sc within its bounds. shard/nshards
// split the level-1 subtrees between processes (0/1: everything).
func Explore(sc *Scenario, shard, nshards int) *Result {
	res := newResult(sc)
	if nshards < 1 {
		nshards = 1
	}
	start := time.Now()
	// determinism self-check: run the default execution twice with logging
	a := sc.runOnce(nil, true)
	b := sc.runOnce(nil, true)
	if strings.Join(a.EventLog, "\n") != strings.Join(b.EventLog, "\n") || fmt.Sprint(a.Observed) != fmt.Sprint(b.Observed) {
		res.Infra = append(res.Infra, "nondeterministic default execution: "+firstDiff(a.EventLog, b.EventLog))
		return res
	}
	// state cache: (fingerprint, alternative) -> best remaining budget it was explored with
	type ckey struct {
		a, b, alt uint64
	}
	cache := map[ckey][4]int{}
	states := map[[2]uint64]struct{}{}
	rem := func(c [4]int) [4]int {
		f := func(b, used int) int {
			if b < 0 {
				return 1 << 30
			}
			return b - used
		}
		t := 1 << 30
		if sc.Bounds.T > 0 {
			t = sc.Bounds.T - c[CostP] - c[CostD] - c[CostF]
		}
		return [4]int{f(sc.Bounds.P, c[CostP]), f(sc.Bounds.D, c[CostD]), f(sc.Bounds.F, c[CostF]), t}
	}
	// visit reports whether (state, alt) was already explored with at least this budget; records it otherwise
	visit := func(fp [2]uint64, alt uint64, r [4]int) bool {
		k := ckey{fp[0], fp[1], alt}
		states[fp] = struct{}{}
		if old, ok := cache[k]; ok && old[0] >= r[0] && old[1] >= r[1] && old[2] >= r[2] && old[3] >= r[3] {
			return true
		}
		if old, ok := cache[k]; !ok || (r[0] >= old[0] && r[1] >= old[1] && r[2] >= old[2] && r[3] >= old[3]) {
			cache[k] = r
		}
		return false
	}
	var curCost [4]int
	if !sc.NoCache {
		pruneHook = func(cp *ChoicePoint, pos int) bool {
			if visit(cp.FP, cp.AltID[0], rem(curCost)) {
				res.Pruned++
				return true
			}
			return false
		}
		defer func() { pruneHook = nil }()
	}
	stack := []work{{}}
	first := true
	for len(stack) > 0 {
		w := stack[len(stack)-1]
		stack = stack[:len(stack)-1]
		if (sc.MaxExecutions > 0 && res.Executions >= sc.MaxExecutions) || (sc.Budget > 0 && time.Since(start) > sc.Budget) {
			res.Truncated = true
			break
		}
		curCost = w.cost
		o := sc.runOnce(w.prefix, false)
		isRoot := first
		first = false
		countIt := !isRoot || shard == 0
		if countIt {
			res.Executions++
			res.Steps += int64(o.Steps)
			res.Nodes += int64(len(o.Trace) - len(w.prefix) + 1)
			if len(o.Trace) > res.MaxDepth {
				res.MaxDepth = len(o.Trace)
			}
			if o.Kind == StepLimit {
				res.StepLimited++
			}
			if o.Kind != Pruned {
				k, txt := sig(o)
				res.Outcomes[k]++
				if _, ok := res.OutcomeText[k]; !ok && len(res.OutcomeText) < 64 {
					res.OutcomeText[k] = txt
				}
			}
			if len(res.SampleTraces) < 4 {
				res.SampleTraces = append(res.SampleTraces, taken(o.Trace))
			}
			for _, f := range sc.failuresOf(o) {
				v := res.Violations[f.Key]
				if v == nil {
					v = &Violation{Key: f.Key, Detail: f.Detail, Scenario: sc.Name, Choices: taken(o.Trace)}
					// confirm by replaying the exact choice sequence with logging
					ok := true
					for i := 0; i < 2; i++ {
						o2 := sc.runOnce(v.Choices, true)
						found := false
						for _, f2 := range sc.failuresOf(o2) {
							if f2.Key == f.Key {
								found = true
							}
						}
						if !found {
							ok = false
						}
						v.Events = o2.EventLog
					}
					if !ok {
						res.Infra = append(res.Infra, "violation did not reproduce on replay: "+f.Key)
						continue
					}
					res.Violations[f.Key] = v
				}
				v.Count++
			}
		}
		// children
		cost := w.cost
		var kids []work
		for i := len(w.prefix); i < len(o.Trace); i++ {
			cp := o.Trace[i]
			for alt := 1; alt < cp.N; alt++ {
				c := cost
				c[cp.Costs[alt]]++
				if cp.Costs[alt] == Free {
					c[Free] = 0
				}
				if !within(c, sc.Bounds) {
					continue
				}
				if !sc.NoCache && cp.AltID != nil && visit(cp.FP, cp.AltID[alt], rem(c)) {
					res.Pruned++
					continue
				}
				p := make([]int, i+1)
				for j := 0; j < i; j++ {
					p[j] = o.Trace[j].Taken
				}
				p[i] = alt
				kids = append(kids, work{prefix: p, cost: c})
			}
			// the default alternative taken at i is free by construction (alt 0)
		}
		if isRoot && nshards > 1 {
			var mine []work
			for i, k := range kids {
				if i%nshards == shard {
					mine = append(mine, k)
				}
			}
			kids = mine
		}
		// push in reverse so that the earliest deviation is explored first
		for i := len(kids) - 1; i >= 0; i-- {
			stack = append(stack, kids[i])
		}
	}
	res.States = int64(len(states))
	return res
}

func taken(tr []ChoicePoint) []int {
	out := make([]int, len(tr))
	for i, c := range tr {
		out[i] = c.Taken
	}
	// trim trailing zeros (defaults)
	n := len(out)
	for n > 0 && out[n-1] == 0 {
		n--
	}
	return out[:n]
}

func firstDiff(a, b []string) string {
	for i := 0; i < len(a) && i < len(b); i++ {
		if a[i] != b[i] {
			return fmt.Sprintf("event %d: %q vs %q", i, a[i], b[i])
		}
	}
	return fmt.Sprintf("lengths %d vs %d", len(a), len(b))
}

// Merge adds o into r.
func (r *Result) Merge(o *Result) {
	r.Executions += o.Executions
	r.Steps += o.Steps
	r.Nodes += o.Nodes
	r.States += o.States
	r.Pruned += o.Pruned
	r.StepLimited += o.StepLimited
	if o.MaxDepth > r.MaxDepth {
		r.MaxDepth = o.MaxDepth
	}
	r.Truncated = r.Truncated || o.Truncated
	for k, v := range o.Outcomes {
		r.Outcomes[k] += v
	}
	for k, v := range o.OutcomeText {
		if len(r.OutcomeText) < 64 {
			r.OutcomeText[k] = v
		}
	}
	for k, v := range o.Violations {
		if have := r.Violations[k]; have != nil {
			have.Count += v.Count
		} else {
			r.Violations[k] = v
		}
	}
	r.Infra = append(r.Infra, o.Infra...)
	for _, t := range o.SampleTraces {
		if len(r.SampleTraces) < 4 {
			r.SampleTraces = append(r.SampleTraces, t)
		}
	}
}

// ExploreSharded runs Explore in nshards child processes of the current binary
// (argv: -vsched-shard name:k:n) and merges their results. The child side is
// served by ServeShard, which the worker main must call first.
func ExploreSharded(sc *Scenario, nshards int, extraArgs ...string) *Result {
	if nshards <= 1 {
		return Explore(sc, 0, 1)
	}
	res := newResult(sc)
	var mu sync.Mutex
	var wg sync.WaitGroup
	for k := 0; k < nshards; k++ {
		wg.Add(1)
		go func(k int) {
			defer wg.Done()
			args := append([]string{fmt.Sprintf("-vsched-shard=%s:%d:%d:%d:%d:%d:%d:%d", sc.Name, k, nshards, sc.Bounds.P, sc.Bounds.D, sc.Bounds.F, int64(sc.Budget/time.Second), sc.Bounds.T)}, extraArgs...)
			cmd := exec.Command(os.Args[0], args...)
			cmd.Env = append(os.Environ(), "GOMAXPROCS=2")
			cmd.Stderr = os.Stderr
			out, err := cmd.Output()
			mu.Lock()
			defer mu.Unlock()
			var r Result
			if err != nil {
				res.Infra = append(res.Infra, fmt.Sprintf("shard %d of %s failed: %v", k, sc.Name, err))
				return
			}
			if e := json.Unmarshal(out, &r); e != nil {
				res.Infra = append(res.Infra, fmt.Sprintf("shard %d of %s: bad output: %v: %.200s", k, sc.Name, e, out))
				return
			}
			res.Merge(&r)
		}(k)
	}
	wg.Wait()
	return res
}

// ServeShard must be called at the start of a worker's main with a lookup from
// scenario name to scenario. If the process was started as a shard child it
// runs the shard, prints the JSON result and exits.
func ServeShard(lookup func(name string) *Scenario) {
	for _, a := range os.Args[1:] {
		if strings.HasPrefix(a, "-vsched-shard=") {
			f := strings.Split(strings.TrimPrefix(a, "-vsched-shard="), ":")
			var k, n, p, d, fl int
			var budget int64
			fmt.Sscan(f[1], &k)
			fmt.Sscan(f[2], &n)
			fmt.Sscan(f[3], &p)
			fmt.Sscan(f[4], &d)
			fmt.Sscan(f[5], &fl)
			fmt.Sscan(f[6], &budget)
			var tot int
			fmt.Sscan(f[7], &tot)
			sc := lookup(f[0])
			if sc == nil {
				fmt.Fprintf(os.Stderr, "unknown scenario %q\n", f[0])
				os.Exit(2)
			}
			sc.Bounds = Bounds{p, d, fl, tot}
			sc.Budget = time.Duration(budget) * time.Second
			r := Explore(sc, k, n)
			b, _ := json.Marshal(r)
			os.Stdout.Write(b)
			os.Exit(0)
		}
	}
}

// SortedOutcomes returns outcome texts sorted by count (for evidence samples).
func (r *Result) SortedOutcomes(max int) []string {
	type kv struct {
		k string
		n int64
	}
	var l []kv
	for k, n := range r.Outcomes {
		l = append(l, kv{k, n})
	}
	sort.Slice(l, func(i, j int) bool { return l[i].n > l[j].n || (l[i].n == l[j].n && l[i].k < l[j].k) })
	var out []string
	for i, e := range l {
		if i >= max {
			break
		}
		out = append(out, fmt.Sprintf("%dx %s", e.n, r.OutcomeText[e.k]))
	}
	return out
}

// RunLogged runs one execution on exactly the given choices with the event log on.
func (sc *Scenario) RunLogged(choices []int) *Outcome { return sc.runOnce(choices, true) }

// FailuresOf applies the scenario's outcome oracle.
func (sc *Scenario) FailuresOf(o *Outcome) []Failure { return sc.failuresOf(o) }
