package vsched

import (
	"bufio"
	"crypto/sha1"
	"encoding/json"
	"fmt"
	"io"
	"os"
	"os/exec"
	"sort"
	"strings"
	"sync"
	"time"
)

// Bounds limits the deviations explored (-1: unbounded).
// T (if > 0) additionally bounds the total number of deviations P+D+F.
type Bounds struct{ P, D, F, T int }

func (b Bounds) String() string {
	if b.T > 0 {
		return fmt.Sprintf("P%d D%d F%d T%d", b.P, b.D, b.F, b.T)
	}
	return fmt.Sprintf("P%d D%d F%d", b.P, b.D, b.F)
}

type Scenario struct {
	Name   string
	Cfg    Config
	Body   func()
	Reset  func() // restores global state before every execution
	Bounds Bounds
	// OnOutcome may turn an outcome into failures or accept it. Default: deadlock
	// and panic are failures; step-limit only makes the result non-exhaustive.
	OnOutcome     func(o *Outcome) []Failure
	NoCache       bool // disable happens-before state caching
	MaxExecutions int64
	Budget        time.Duration // wall-clock budget; hitting it => Truncated (never a violation)
}

type Violation struct {
	Key      string   `json:"key"`
	Detail   string   `json:"detail"`
	Scenario string   `json:"scenario"`
	Choices  []int    `json:"choices"`
	Events   []string `json:"events,omitempty"`
	Count    int64    `json:"count"`
}

type Result struct {
	Scenario     string                `json:"scenario"`
	Bounds       string                `json:"bounds"`
	Executions   int64                 `json:"executions"`
	Steps        int64                 `json:"steps"`
	Nodes        int64                 `json:"nodes"`  // distinct choice-sequence prefixes visited
	States       int64                 `json:"states"` // distinct happens-before fingerprints at choice points
	Pruned       int64                 `json:"pruned"` // subtrees skipped because (state, transition) was already explored
	MaxDepth     int                   `json:"max_depth"`
	Truncated    bool                  `json:"truncated"`
	StepLimited  int64                 `json:"step_limited"`
	Outcomes     map[string]int64      `json:"outcomes"` // outcome signature -> executions
	OutcomeText  map[string]string     `json:"outcome_text"`
	Violations   map[string]*Violation `json:"violations"`
	Infra        []string              `json:"infra,omitempty"`
	SampleTraces [][]int               `json:"sample_traces,omitempty"`
}

func newResult(sc *Scenario) *Result {
	return &Result{Scenario: sc.Name, Bounds: sc.Bounds.String(), Outcomes: map[string]int64{}, OutcomeText: map[string]string{}, Violations: map[string]*Violation{}}
}

type work struct {
	prefix []int
	cost   [4]int
}

func within(c [4]int, b Bounds) bool {
	return (b.P < 0 || c[CostP] <= b.P) && (b.D < 0 || c[CostD] <= b.D) && (b.F < 0 || c[CostF] <= b.F) &&
		(b.T <= 0 || c[CostP]+c[CostD]+c[CostF] <= b.T)
}

func (sc *Scenario) runOnce(prefix []int, log bool) *Outcome {
	if sc.Reset != nil {
		sc.Reset()
	}
	cfg := sc.Cfg
	cfg.LogEvents = log
	if log { // confirmation / determinism replays run to completion, unpruned
		saved := pruneHook
		pruneHook = nil
		defer func() { pruneHook = saved }()
	}
	return Run(cfg, prefix, sc.Body)
}

func (sc *Scenario) failuresOf(o *Outcome) []Failure {
	var fs []Failure
	fs = append(fs, o.Failures...)
	if sc.OnOutcome != nil {
		fs = append(fs, sc.OnOutcome(o)...)
		return fs
	}
	switch o.Kind {
	case Deadlock:
		fs = append(fs, Failure{Key: "deadlock:" + sc.Name, Detail: "blocked: " + strings.Join(o.Blocked, "; ")})
	case Panicked:
		fs = append(fs, Failure{Key: "panic:" + o.PanicSite, Detail: fmt.Sprintf("%v\n%s", o.PanicVal, o.Stack)})
	}
	return fs
}

func sig(o *Outcome) (string, string) {
	txt := o.Kind.String() + "|" + strings.Join(o.Observed, "|")
	h := sha1.Sum([]byte(txt))
	return fmt.Sprintf("%x", h[:8]), txt
}

// explorer holds the state of one exploration (result, state cache).
type explorer struct {
	sc      *Scenario
	res     *Result
	start   time.Time
	expand  func(w work, countIt bool) []work
	states  map[[2]uint64]struct{}
	cleanup func()
}

func (sc *Scenario) selfCheck(res *Result) bool {
	// determinism self-check: run the default execution twice with logging
	a := sc.runOnce(nil, true)
	b := sc.runOnce(nil, true)
	if strings.Join(a.EventLog, "\n") != strings.Join(b.EventLog, "\n") || fmt.Sprint(a.Observed) != fmt.Sprint(b.Observed) {
		res.Infra = append(res.Infra, "nondeterministic default execution: "+firstDiff(a.EventLog, b.EventLog))
		return false
	}
	return true
}

func newExplorer(sc *Scenario) *explorer {
	e := &explorer{sc: sc, res: newResult(sc), start: time.Now()}
	res := e.res
	// state cache: (fingerprint, alternative) -> best remaining budget it was explored with
	type ckey struct {
		a, b, alt uint64
	}
	cache := map[ckey][4]int{}
	states := map[[2]uint64]struct{}{}
	e.states = states
	rem := func(c [4]int) [4]int {
		f := func(b, used int) int {
			if b < 0 {
				return 1 << 30
			}
			return b - used
		}
		t := 1 << 30
		if sc.Bounds.T > 0 {
			t = sc.Bounds.T - c[CostP] - c[CostD] - c[CostF]
		}
		return [4]int{f(sc.Bounds.P, c[CostP]), f(sc.Bounds.D, c[CostD]), f(sc.Bounds.F, c[CostF]), t}
	}
	// visit reports whether (state, alt) was already explored with at least this budget; records it otherwise
	visit := func(fp [2]uint64, alt uint64, r [4]int) bool {
		k := ckey{fp[0], fp[1], alt}
		states[fp] = struct{}{}
		if old, ok := cache[k]; ok && old[0] >= r[0] && old[1] >= r[1] && old[2] >= r[2] && old[3] >= r[3] {
			return true
		}
		if old, ok := cache[k]; !ok || (r[0] >= old[0] && r[1] >= old[1] && r[2] >= old[2] && r[3] >= old[3]) {
			cache[k] = r
		}
		return false
	}
	var curCost [4]int
	if !sc.NoCache {
		pruneHook = func(cp *ChoicePoint, pos int) bool {
			if visit(cp.FP, cp.AltID[0], rem(curCost)) {
				res.Pruned++
				return true
			}
			return false
		}
	}
	e.cleanup = func() { pruneHook = nil; res.States = int64(len(states)) }
	e.expand = func(w work, countIt bool) []work {
		curCost = w.cost
		o := sc.runOnce(w.prefix, false)
		if countIt {
			res.Executions++
			res.Steps += int64(o.Steps)
			res.Nodes += int64(len(o.Trace) - len(w.prefix) + 1)
			if len(o.Trace) > res.MaxDepth {
				res.MaxDepth = len(o.Trace)
			}
			if o.Kind == StepLimit {
				res.StepLimited++
			}
			if o.Kind != Pruned {
				k, txt := sig(o)
				res.Outcomes[k]++
				if _, ok := res.OutcomeText[k]; !ok && len(res.OutcomeText) < 64 {
					res.OutcomeText[k] = txt
				}
			}
			if len(res.SampleTraces) < 4 {
				res.SampleTraces = append(res.SampleTraces, taken(o.Trace))
			}
			for _, f := range sc.failuresOf(o) {
				v := res.Violations[f.Key]
				if v == nil {
					v = &Violation{Key: f.Key, Detail: f.Detail, Scenario: sc.Name, Choices: taken(o.Trace)}
					// confirm by replaying the exact choice sequence with logging
					ok := true
					for i := 0; i < 2; i++ {
						o2 := sc.runOnce(v.Choices, true)
						found := false
						for _, f2 := range sc.failuresOf(o2) {
							if f2.Key == f.Key {
								found = true
							}
						}
						if !found {
							ok = false
						}
						v.Events = o2.EventLog
					}
					if !ok {
						res.Infra = append(res.Infra, "violation did not reproduce on replay: "+f.Key)
						continue
					}
					res.Violations[f.Key] = v
				}
				v.Count++
			}
		}
		// children
		cost := w.cost
		var kids []work
		for i := len(w.prefix); i < len(o.Trace); i++ {
			cp := o.Trace[i]
			for alt := 1; alt < cp.N; alt++ {
				c := cost
				c[cp.Costs[alt]]++
				if cp.Costs[alt] == Free {
					c[Free] = 0
				}
				if !within(c, sc.Bounds) {
					continue
				}
				if !sc.NoCache && cp.AltID != nil && visit(cp.FP, cp.AltID[alt], rem(c)) {
					res.Pruned++
					continue
				}
				p := make([]int, i+1)
				for j := 0; j < i; j++ {
					p[j] = o.Trace[j].Taken
				}
				p[i] = alt
				kids = append(kids, work{prefix: p, cost: c})
			}
			// the default alternative taken at i is free by construction (alt 0)
		}
		return kids
	}
	return e
}

func (e *explorer) over() bool {
	return (e.sc.MaxExecutions > 0 && e.res.Executions >= e.sc.MaxExecutions) || (e.sc.Budget > 0 && time.Since(e.start) > e.sc.Budget)
}

// dfs explores the subtrees of the given items completely (within bounds / budget).
func (e *explorer) dfs(items []work) {
	var stack []work
	for i := len(items) - 1; i >= 0; i-- {
		stack = append(stack, items[i])
	}
	for len(stack) > 0 {
		w := stack[len(stack)-1]
		stack = stack[:len(stack)-1]
		if e.over() {
			e.res.Truncated = true
			break
		}
		kids := e.expand(w, true)
		// push in reverse so that the earliest deviation is explored first
		for i := len(kids) - 1; i >= 0; i-- {
			stack = append(stack, kids[i])
		}
	}
}

// split expands the root and the zero-cost items (the alternatives of FREE choice points: the scenario's
// configurations, which carry whole-budget subtrees) breadth-first and returns the frontier.
func (e *explorer) split(minItems int) []work {
	frontier := []work{{}}
	for n := 0; n < 512; n++ {
		pick := -1
		for i, w := range frontier {
			if w.cost[CostP]+w.cost[CostD]+w.cost[CostF] == 0 {
				pick = i
				break
			}
		}
		if pick < 0 || (len(frontier) >= minItems && n >= 8) || e.over() {
			break
		}
		w := frontier[pick]
		frontier = append(frontier[:pick:pick], frontier[pick+1:]...)
		frontier = append(frontier, e.expand(w, true)...)
	}
	return frontier
}

// Explore enumerates all executions of sc within its bounds in this process.
// (shard/nshards are kept for compatibility: shard k of n explores every n-th frontier item.)
func Explore(sc *Scenario, shard, nshards int) *Result {
	e := newExplorer(sc)
	defer e.cleanup()
	if !sc.selfCheck(e.res) {
		return e.res
	}
	e.dfs([]work{{}})
	e.cleanup()
	return e.res
}

func taken(tr []ChoicePoint) []int {
	out := make([]int, len(tr))
	for i, c := range tr {
		out[i] = c.Taken
	}
	// trim trailing zeros (defaults)
	n := len(out)
	for n > 0 && out[n-1] == 0 {
		n--
	}
	return out[:n]
}

func firstDiff(a, b []string) string {
	for i := 0; i < len(a) && i < len(b); i++ {
		if a[i] != b[i] {
			return fmt.Sprintf("event %d: %q vs %q", i, a[i], b[i])
		}
	}
	return fmt.Sprintf("lengths %d vs %d", len(a), len(b))
}

// Merge adds o into r.
func (r *Result) Merge(o *Result) {
	r.Executions += o.Executions
	r.Steps += o.Steps
	r.Nodes += o.Nodes
	r.States += o.States
	r.Pruned += o.Pruned
	r.StepLimited += o.StepLimited
	if o.MaxDepth > r.MaxDepth {
		r.MaxDepth = o.MaxDepth
	}
	r.Truncated = r.Truncated || o.Truncated
	for k, v := range o.Outcomes {
		r.Outcomes[k] += v
	}
	for k, v := range o.OutcomeText {
		if len(r.OutcomeText) < 64 {
			r.OutcomeText[k] = v
		}
	}
	for k, v := range o.Violations {
		if have := r.Violations[k]; have != nil {
			have.Count += v.Count
		} else {
			r.Violations[k] = v
		}
	}
	r.Infra = append(r.Infra, o.Infra...)
	for _, t := range o.SampleTraces {
		if len(r.SampleTraces) < 4 {
			r.SampleTraces = append(r.SampleTraces, t)
		}
	}
}

type wireItem struct {
	P []int  `json:"p"`
	C [4]int `json:"c"`
}

// ExploreSharded explores sc with nshards worker processes of the current binary. The master runs the
// determinism self-check, expands the root and the scenario's free-choice configurations into a frontier
// of subtrees, and hands the subtrees out on demand (argv of a worker: -vsched-worker=...; items and
// acknowledgements travel as JSON lines over its stdin/stdout). Workers keep their state cache across
// items. The child side is served by ServeShard, which the worker main must call first.
func ExploreSharded(sc *Scenario, nshards int, extraArgs ...string) *Result {
	if nshards <= 1 {
		return Explore(sc, 0, 1)
	}
	e := newExplorer(sc)
	if !sc.selfCheck(e.res) {
		e.cleanup()
		return e.res
	}
	frontier := e.split(8 * nshards)
	e.cleanup()
	res := e.res
	if len(frontier) == 0 {
		return res
	}
	if nshards > len(frontier) {
		nshards = len(frontier)
	}
	items := make(chan work, len(frontier))
	for _, w := range frontier {
		items <- w
	}
	close(items)
	remaining := int64(0)
	if sc.Budget > 0 {
		left := sc.Budget - time.Since(e.start)
		if left < time.Second {
			left = time.Second
		}
		remaining = int64(left / time.Second)
	}
	var mu sync.Mutex
	var wg sync.WaitGroup
	for k := 0; k < nshards; k++ {
		wg.Add(1)
		go func(k int) {
			defer wg.Done()
			fail := func(format string, a ...interface{}) {
				mu.Lock()
				res.Infra = append(res.Infra, fmt.Sprintf("worker %d of %s: ", k, sc.Name)+fmt.Sprintf(format, a...))
				mu.Unlock()
			}
			args := append([]string{fmt.Sprintf("-vsched-worker=%s:%d:%d:%d:%d:%d", sc.Name, sc.Bounds.P, sc.Bounds.D, sc.Bounds.F, remaining, sc.Bounds.T)}, extraArgs...)
			cmd := exec.Command(os.Args[0], args...)
			cmd.Env = append(os.Environ(), "GOMAXPROCS=2")
			cmd.Stderr = os.Stderr
			stdin, err := cmd.StdinPipe()
			if err != nil {
				fail("%v", err)
				return
			}
			stdout, err := cmd.StdoutPipe()
			if err != nil {
				fail("%v", err)
				return
			}
			if err := cmd.Start(); err != nil {
				fail("%v", err)
				return
			}
			rd := bufio.NewReaderSize(stdout, 1<<20)
			enc := json.NewEncoder(stdin)
			broken := false
			for w := range items {
				if broken {
					fail("subtree %v not explored", w.prefix)
					continue
				}
				if err := enc.Encode(wireItem{w.prefix, w.cost}); err != nil {
					fail("send: %v", err)
					broken = true
					continue
				}
				line, err := rd.ReadString('\n')
				if err != nil || !strings.HasPrefix(line, "done") {
					fail("no acknowledgement (%v): %.200s", err, line)
					broken = true
				}
			}
			stdin.Close()
			out, _ := io.ReadAll(rd)
			werr := cmd.Wait()
			if broken {
				return
			}
			var r Result
			if e := json.Unmarshal(out, &r); e != nil {
				fail("bad result (%v, exit %v): %.200s", e, werr, out)
				return
			}
			mu.Lock()
			res.Merge(&r)
			mu.Unlock()
		}(k)
	}
	wg.Wait()
	return res
}

// ServeShard must be called at the start of a worker's main with a lookup from scenario name to
// scenario. If the process was started as an exploration worker it serves subtrees until its stdin is
// closed, prints its cumulative JSON result and exits.
func ServeShard(lookup func(name string) *Scenario) {
	for _, a := range os.Args[1:] {
		if !strings.HasPrefix(a, "-vsched-worker=") {
			continue
		}
		f := strings.Split(strings.TrimPrefix(a, "-vsched-worker="), ":")
		if len(f) < 6 {
			fmt.Fprintf(os.Stderr, "bad worker spec %q\n", a)
			os.Exit(2)
		}
		var p, d, fl, tot int
		var budget int64
		fmt.Sscan(f[1], &p)
		fmt.Sscan(f[2], &d)
		fmt.Sscan(f[3], &fl)
		fmt.Sscan(f[4], &budget)
		fmt.Sscan(f[5], &tot)
		sc := lookup(f[0])
		if sc == nil {
			fmt.Fprintf(os.Stderr, "unknown scenario %q\n", f[0])
			os.Exit(2)
		}
		sc.Bounds = Bounds{p, d, fl, tot}
		sc.Budget = time.Duration(budget) * time.Second
		e := newExplorer(sc)
		in := bufio.NewReaderSize(os.Stdin, 1<<20)
		out := bufio.NewWriter(os.Stdout)
		for {
			line, err := in.ReadBytes('\n')
			if len(line) > 0 {
				var it wireItem
				if e2 := json.Unmarshal(line, &it); e2 != nil {
					fmt.Fprintf(os.Stderr, "bad item: %v\n", e2)
					os.Exit(2)
				}
				e.dfs([]work{{prefix: it.P, cost: it.C}})
				out.WriteString("done\n")
				out.Flush()
			}
			if err != nil {
				break
			}
		}
		e.cleanup()
		b, _ := json.Marshal(e.res)
		out.Write(b)
		out.Flush()
		os.Exit(0)
	}
}

// SortedOutcomes returns outcome texts sorted by count (for evidence samples).
func (r *Result) SortedOutcomes(max int) []string {
	type kv struct {
		k string
		n int64
	}
	var l []kv
	for k, n := range r.Outcomes {
		l = append(l, kv{k, n})
	}
	sort.Slice(l, func(i, j int) bool { return l[i].n > l[j].n || (l[i].n == l[j].n && l[i].k < l[j].k) })
	var out []string
	for i, e := range l {
		if i >= max {
			break
		}
		out = append(out, fmt.Sprintf("%dx %s", e.n, r.OutcomeText[e.k]))
	}
	return out
}

// RunLogged runs one execution on exactly the given choices with the event log on.
func (sc *Scenario) RunLogged(choices []int) *Outcome { return sc.runOnce(choices, true) }

// FailuresOf applies the scenario's outcome oracle.
func (sc *Scenario) FailuresOf(o *Outcome) []Failure { return sc.failuresOf(o) }
