// Package vnet provides in-memory net.Conn pairs whose blocking, deadlines and
// faults are owned by vsched: every Read/Write/Close is a scheduling point,
// deadlines run on virtual time, and write faults are enumerated choices.
package vnet

import (
	"fmt"
	"io"
	"net"
	"os"
	"time"
	"unsafe"

	"verif/engine/vsched"
)

// half is one direction of a pipe.
type half struct {
	buf     []byte
	wclosed bool  // writer closed: reader sees EOF after draining
	rclosed bool  // reader closed
	reset   error // abrupt error for the reader (after draining if nil buf)
	obj     byte  // identity for happens-before tracking
	total   int   // bytes ever written
}

// WriteRec is one Write call as seen on the wire.
type WriteRec struct {
	Conn   string
	Data   []byte // bytes that actually went out
	Asked  int    // len(p) of the call
	Err    string
	Time   time.Duration
	Thread string
	Seq    int
}

// FaultPlan enumerates the ways a write of n bytes (the idx-th Write on this
// conn) may go wrong: it returns the byte counts k (0 <= k < n) after which the
// write fails. nil/empty: the write cannot fail.
type FaultPlan func(c *Conn, idx, n int) []int

type Conn struct {
	Name         string
	rd, wr       *half
	local        net.Addr
	remote       net.Addr
	rdl, wdl     time.Time
	rdlTimer     *vsched.Timer
	closed       bool
	CloseErr     error // returned by Close (models a failing TLS close-notify)
	Faults       FaultPlan
	BlockWrite   bool // fault alternative: block until the write deadline, then time out
	BlockPartial bool // with BlockWrite: the blocked write has already passed on the first half of its bytes (full socket buffer)
	ShortReads   bool // enumerate short reads (1 byte) as a fault alternative
	nwrites      int
	Log          *[]WriteRec // shared log of writes (client->server side only, typically)
	// Sink, if set on a conn, receives every chunk the PEER writes, synchronously in
	// the writer's thread right after the write (no reader thread, no scheduling
	// point): a zero-latency network in that direction. The chunk is not queued.
	Sink             func(data []byte)
	peer             *Conn
	failed           bool // a write fault was injected: later writes fail too
	WritesAfterFault int
}

var logObj byte

type timeoutErr struct{ op string }

func (e *timeoutErr) Error() string   { return "vnet: " + e.op + " i/o timeout" }
func (e *timeoutErr) Timeout() bool   { return true }
func (e *timeoutErr) Temporary() bool { return true }
func (e *timeoutErr) Unwrap() error   { return os.ErrDeadlineExceeded }

type netErr struct{ msg string }

func (e *netErr) Error() string   { return e.msg }
func (e *netErr) Timeout() bool   { return false }
func (e *netErr) Temporary() bool { return false }

var ErrClosed = &netErr{"vnet: use of closed network connection"}
var ErrReset = &netErr{"vnet: connection reset by peer"}
var ErrBrokenPipe = &netErr{"vnet: broken pipe"}

// Pipe creates a connected pair. a is conventionally the client end.
func Pipe(name string, clientAddr, serverAddr *net.TCPAddr) (a, b *Conn) {
	h1, h2 := &half{}, &half{}
	a = &Conn{Name: name + "/client", rd: h2, wr: h1, local: clientAddr, remote: serverAddr}
	b = &Conn{Name: name + "/server", rd: h1, wr: h2, local: serverAddr, remote: clientAddr}
	a.peer, b.peer = b, a
	return
}

func (c *Conn) LocalAddr() net.Addr  { return c.local }
func (c *Conn) RemoteAddr() net.Addr { return c.remote }

func (c *Conn) readable() bool {
	if c.closed || len(c.rd.buf) > 0 || c.rd.wclosed || c.rd.reset != nil {
		return true
	}
	if !c.rdl.IsZero() && !vsched.Now().Before(c.rdl) {
		return true
	}
	return false
}

func (c *Conn) Read(p []byte) (int, error) {
	if !vsched.Active() {
		return 0, ErrClosed
	}
	if len(p) == 0 {
		return 0, nil
	}
	vsched.PointObj("vnet.Read "+c.Name, c.readable, unsafe.Pointer(&c.rd.obj), true)
	if c.closed {
		return 0, ErrClosed
	}
	if len(c.rd.buf) > 0 {
		n := copy(p, c.rd.buf)
		if c.ShortReads && n > 1 && vsched.Choose(2, vsched.CostF) == 1 {
			n = 1
		}
		c.rd.buf = c.rd.buf[n:]
		return n, nil
	}
	if c.rd.reset != nil {
		return 0, c.rd.reset
	}
	if c.rd.wclosed {
		return 0, io.EOF
	}
	return 0, &timeoutErr{"read"}
}

func (c *Conn) Write(p []byte) (int, error) {
	if !vsched.Active() {
		return 0, ErrClosed
	}
	vsched.PointObj("vnet.Write "+c.Name, nil, unsafe.Pointer(&c.wr.obj), true)
	idx := c.nwrites
	c.nwrites++
	if c.closed {
		return 0, ErrClosed
	}
	if c.wr.rclosed {
		c.record(nil, len(p), ErrBrokenPipe)
		return 0, ErrBrokenPipe
	}
	if c.failed {
		c.WritesAfterFault++
	}
	n := len(p)
	var werr error
	if c.Faults != nil && n > 0 {
		cuts := c.Faults(c, idx, n)
		nalt := 1 + len(cuts)
		if c.BlockWrite && !c.wdl.IsZero() {
			nalt++
		}
		if nalt > 1 {
			ch := vsched.Choose(nalt, vsched.CostF)
			switch {
			case ch == 0:
			case ch <= len(cuts):
				n = cuts[ch-1]
				werr = ErrReset
				c.failed = true
			default:
				// block until the write deadline
				n = 0
				werr = &timeoutErr{"write"}
				c.failed = true
				if c.BlockPartial && len(p) >= 2 {
					// the first half is on its way before the write blocks: log and deliver it now, so that
					// whatever other threads write meanwhile comes after it in the byte stream
					n = len(p) / 2
					c.record(p[:n], len(p), werr)
					c.wr.total += n
					if c.peer != nil && c.peer.Sink != nil {
						c.peer.Sink(append([]byte(nil), p[:n]...))
					} else {
						c.wr.buf = append(c.wr.buf, p[:n]...)
					}
				}
				// blocked until the write deadline IN FORCE passes: a deadline moved or cleared meanwhile (SetWriteDeadline /
				// SetDeadline from another thread) is honoured, as a real socket does; without a deadline the write stays
				// blocked until the connection is closed
				for !c.closed {
					if c.wdl.IsZero() {
						vsched.Sleep(50 * time.Millisecond)
						continue
					}
					d := c.wdl.Sub(vsched.Now())
					if d <= 0 {
						break
					}
					vsched.Sleep(d)
				}
				if c.closed {
					werr = ErrClosed
				}
				if n > 0 {
					return n, werr
				}
			}
		}
	}
	c.record(p[:n], len(p), werr)
	if n > 0 {
		c.wr.total += n
		if c.peer != nil && c.peer.Sink != nil {
			c.peer.Sink(append([]byte(nil), p[:n]...))
		} else {
			c.wr.buf = append(c.wr.buf, p[:n]...)
		}
	}
	return n, werr
}

func (c *Conn) record(data []byte, asked int, err error) {
	if c.Log == nil {
		return
	}
	vsched.Touch(unsafe.Pointer(&logObj), true)
	_, th := vsched.CurrentThread()
	r := WriteRec{Conn: c.Name, Data: append([]byte(nil), data...), Asked: asked, Time: vsched.Clock(), Thread: th, Seq: len(*c.Log)}
	if err != nil {
		r.Err = err.Error()
	}
	*c.Log = append(*c.Log, r)
}

// Close closes both directions. Pending and later reads on this end fail; the
// peer reads EOF after draining and its writes fail with a broken pipe.
func (c *Conn) Close() error {
	if !vsched.Active() {
		return nil
	}
	vsched.PointObj("vnet.Close "+c.Name, nil, unsafe.Pointer(&c.wr.obj), true)
	vsched.Touch(unsafe.Pointer(&c.rd.obj), true)
	if c.closed {
		return ErrClosed
	}
	c.closed = true
	c.wr.wclosed = true
	c.rd.rclosed = true
	return c.CloseErr
}

// WriteAndAbort writes p and aborts the connection in one atomic step (a peer dying mid-frame).
func (c *Conn) WriteAndAbort(p []byte) {
	if !vsched.Active() {
		return
	}
	vsched.PointObj("vnet.WriteAndAbort "+c.Name, nil, unsafe.Pointer(&c.wr.obj), true)
	vsched.Touch(unsafe.Pointer(&c.rd.obj), true)
	if c.closed {
		return
	}
	c.record(p, len(p), ErrReset)
	if c.peer != nil && c.peer.Sink != nil {
		c.peer.Sink(append([]byte(nil), p...))
	} else {
		c.wr.buf = append(c.wr.buf, p...)
	}
	c.closed = true
	c.wr.reset = ErrReset
	c.rd.rclosed = true
}

// Abort makes the peer's reads fail with a reset (after draining) and its writes fail.
func (c *Conn) Abort() {
	if !vsched.Active() {
		return
	}
	vsched.PointObj("vnet.Abort "+c.Name, nil, unsafe.Pointer(&c.wr.obj), true)
	vsched.Touch(unsafe.Pointer(&c.rd.obj), true)
	c.closed = true
	c.wr.reset = ErrReset
	c.rd.rclosed = true
}

func (c *Conn) Closed() bool { return c.closed }

// PeerClosed reports whether the other end has closed or aborted.
func (c *Conn) PeerClosed() bool { return c.rd.wclosed || c.rd.reset != nil }

func (c *Conn) SetDeadline(t time.Time) error {
	c.SetReadDeadline(t)
	return c.SetWriteDeadline(t)
}

func (c *Conn) SetReadDeadline(t time.Time) error {
	if !vsched.Active() {
		return nil
	}
	if c.closed {
		return ErrClosed
	}
	vsched.Touch(unsafe.Pointer(&c.rd.obj), true)
	c.rdl = t
	if c.rdlTimer != nil {
		c.rdlTimer.StopNoPoint()
		c.rdlTimer = nil
	}
	if !t.IsZero() {
		d := t.Sub(vsched.Now())
		if d > 0 {
			// a timer only so that virtual time can advance to the deadline
			c.rdlTimer = vsched.AfterFuncInline(d, "vnet.readDeadline "+c.Name, func() {})
		}
	}
	return nil
}

func (c *Conn) SetWriteDeadline(t time.Time) error {
	if c.closed {
		return ErrClosed
	}
	c.wdl = t
	return nil
}

func (c *Conn) String() string { return fmt.Sprintf("vnet(%s)", c.Name) }

// Inject appends bytes to this end's read queue (harness-side shortcut for a peer write).
func (c *Conn) Inject(b []byte) {
	vsched.Touch(unsafe.Pointer(&c.rd.obj), true)
	c.rd.buf = append(c.rd.buf, b...)
}

// Pending returns the unread bytes queued for this end.
func (c *Conn) Pending() int { return len(c.rd.buf) }

var _ net.Conn = (*Conn)(nil)
