// Package vcrand mirrors crypto/rand with a deterministic per-execution source.
package vcrand

import (
	"io"

	"verif/engine/vsched"
)

type reader struct{}

func (reader) Read(p []byte) (int, error) {
	for i := range p {
		p[i] = byte(vsched.Rand64())
	}
	return len(p), nil
}

var Reader io.Reader = reader{}

func Read(p []byte) (int, error) { return Reader.Read(p) }
