// Package report is the shared result/evidence writer of every check.
//
// A worker creates one Run, reports every explored case with Case (or the
// model-checking counters), reports violations with Violation, and ends with
// Finish, which writes /verif/evidence/<id>.json and returns the exit code
// (0 held / only known findings, 1 new violation, 2 infrastructure error).
package report

import (
	"bufio"
	"crypto/sha1"
	"encoding/binary"
	"encoding/json"
	"flag"
	"fmt"
	"os"
	"path/filepath"
	"sort"
	"strconv"
	"strings"
	"sync"
	"time"
)

const (
	VerifDir     = "/verif"
	MaxSamples   = 12
	MaxViolPrint = 20
)

type Run struct {
	mu         sync.Mutex
	ID         string
	Level      string
	Tier       string
	Seed       int64
	start      time.Time
	evals      int64
	distinct   map[[8]byte]struct{}
	samples    []interface{}
	rule       string
	assume     []string
	extra      map[string]interface{}
	known      map[string]string // key -> description
	knownHit   map[string]bool
	violKeys   map[string]bool
	violations int
	infra      []string
	// model checking counters
	States, Transitions, Traces int64
	useMC                       bool
	evidencePath                string
	replayDir                   string
}

// Flags common to all workers. Call flag.Parse() before New (New does it if needed).
var (
	flagTier     = flag.String("tier", envOr("VERIF_TIER", "quick"), "quick|thorough")
	flagEvidence = flag.String("evidence", "", "evidence file (default /verif/evidence/<id>.json)")
	flagReplays  = flag.String("replays", filepath.Join(VerifDir, "replays"), "replay dir")
)

func envOr(k, d string) string {
	if v := os.Getenv(k); v != "" {
		return v
	}
	return d
}

func New(id, level string) *Run {
	if !flag.Parsed() {
		flag.Parse()
	}
	seed, _ := strconv.ParseInt(os.Getenv("VERIF_SEED"), 10, 64)
	r := &Run{ID: id, Level: level, Tier: *flagTier, Seed: seed, start: time.Now(),
		distinct: map[[8]byte]struct{}{}, extra: map[string]interface{}{},
		known: map[string]string{}, knownHit: map[string]bool{}, violKeys: map[string]bool{}}
	if r.Tier != "quick" && r.Tier != "thorough" {
		r.Tier = "quick"
	}
	r.evidencePath = *flagEvidence
	if r.evidencePath == "" {
		r.evidencePath = filepath.Join(VerifDir, "evidence", id+".json")
	}
	r.replayDir = *flagReplays
	r.loadKnown(filepath.Join(VerifDir, "known_findings.txt"))
	return r
}

func (r *Run) Thorough() bool { return r.Tier == "thorough" }

func (r *Run) loadKnown(path string) {
	f, err := os.Open(path)
	if err != nil {
		return
	}
	defer f.Close()
	sc := bufio.NewScanner(f)
	sc.Buffer(make([]byte, 1<<20), 1<<20)
	for sc.Scan() {
		line := strings.TrimSpace(sc.Text())
		if !strings.HasPrefix(line, "known:") {
			continue
		}
		rest := strings.TrimSpace(strings.TrimPrefix(line, "known:"))
		if !strings.HasPrefix(rest, "property="+r.ID+" ") {
			continue
		}
		rest = strings.TrimPrefix(rest, "property="+r.ID+" ")
		i := strings.Index(rest, "key=")
		if i < 0 {
			continue
		}
		rest = rest[i+4:]
		key, desc := rest, ""
		if j := strings.Index(rest, " :: "); j >= 0 {
			key, desc = rest[:j], rest[j+4:]
		}
		r.known[strings.TrimSpace(key)] = desc
	}
}

// SetRule describes how cases are enumerated and what makes one distinct/non-trivial.
func (r *Run) SetRule(s string) { r.rule = s }

func (r *Run) Assume(s ...string) { r.assume = append(r.assume, s...) }

// Extra adds a key to the coverage object.
func (r *Run) Extra(k string, v interface{}) {
	r.mu.Lock()
	r.extra[k] = v
	r.mu.Unlock()
}

// Case counts one evaluated case. key identifies the case; it is counted in
// distinct_nontrivial iff nontrivial is true and the key was not seen before.
func (r *Run) Case(key string, nontrivial bool) {
	r.mu.Lock()
	r.evals++
	if nontrivial {
		h := sha1.Sum([]byte(key))
		var k [8]byte
		copy(k[:], h[:8])
		r.distinct[k] = struct{}{}
	}
	r.mu.Unlock()
}

// AddCounts merges counts from a worker subprocess.
func (r *Run) AddCounts(evals int64, distinctKeys [][8]byte) {
	r.mu.Lock()
	r.evals += evals
	for _, k := range distinctKeys {
		r.distinct[k] = struct{}{}
	}
	r.mu.Unlock()
}

func (r *Run) Sample(v interface{}) {
	r.mu.Lock()
	if len(r.samples) < MaxSamples {
		r.samples = append(r.samples, v)
	}
	r.mu.Unlock()
}

func (r *Run) NeedSample() bool {
	r.mu.Lock()
	defer r.mu.Unlock()
	return len(r.samples) < MaxSamples
}

// MC records model-checking counters (adds).
func (r *Run) MC(states, transitions, traces int64) {
	r.mu.Lock()
	r.useMC = true
	r.States += states
	r.Transitions += transitions
	r.Traces += traces
	r.mu.Unlock()
}

// Infra records an infrastructure error (exit 2, never a VIOLATION line).
func (r *Run) Infra(format string, a ...interface{}) {
	r.mu.Lock()
	msg := fmt.Sprintf(format, a...)
	r.infra = append(r.infra, msg)
	r.mu.Unlock()
	fmt.Fprintf(os.Stderr, "INFRA-ERROR property=%s %s\n", r.ID, msg)
}

// Violation reports a property violation. key is the stable identity of the
// finding (site + input class): if known_findings.txt lists it, a KNOWN-FINDING
// line is printed (once per key) and the run still passes. replay is any
// JSON-serialisable description allowing the case to be re-run.
func (r *Run) Violation(key, detail string, replay interface{}) {
	key = strings.TrimSpace(key)
	r.mu.Lock()
	defer r.mu.Unlock()
	if desc, ok := r.known[key]; ok {
		if !r.knownHit[key] {
			r.knownHit[key] = true
			fmt.Printf("KNOWN-FINDING: property=%s %s (%s)\n", r.ID, key, desc)
		}
		return
	}
	r.violations++
	if r.violKeys[key] {
		return
	}
	r.violKeys[key] = true
	if len(r.violKeys) > MaxViolPrint {
		return
	}
	os.MkdirAll(r.replayDir, 0o755)
	h := sha1.Sum([]byte(key))
	path := filepath.Join(r.replayDir, fmt.Sprintf("%s-%x.json", r.ID, h[:6]))
	b, _ := json.MarshalIndent(map[string]interface{}{"property": r.ID, "key": key, "detail": detail, "replay": replay}, "", " ")
	os.WriteFile(path, b, 0o644)
	fmt.Printf("VIOLATION property=%s replay=%s\n", r.ID, path)
	fmt.Printf("  key: %s\n  detail: %s\n", key, trunc(detail, 2000))
}

func trunc(s string, n int) string {
	if len(s) > n {
		return s[:n] + "…"
	}
	return s
}

func (r *Run) Violations() int { r.mu.Lock(); defer r.mu.Unlock(); return r.violations }

// ingestRaceLog turns the race detector's reports of the free-running pass into violations.
func (r *Run) ingestRaceLog() {
	f := os.Getenv("VERIF_RACE_LOG")
	if f == "" {
		return
	}
	b, err := os.ReadFile(f)
	if err != nil {
		r.Infra("race pass log missing: %v", err)
		return
	}
	txt := string(b)
	if !strings.Contains(txt, "\nok  \t") && !strings.Contains(txt, "FAIL\t") && !strings.HasPrefix(txt, "ok  \t") {
		r.Infra("race pass did not run (build failure?): %s", trunc(txt, 400))
		return
	}
	blocks := strings.Split(txt, "WARNING: DATA RACE")
	keys := map[string]bool{}
	ignored := 0
	for _, blk := range blocks[1:] {
		// the first function of each of the two access stacks
		var fns []string
		lines := strings.Split(blk, "\n")
		for i, l := range lines {
			t := strings.TrimSpace(l)
			if (strings.HasPrefix(t, "Read at") || strings.HasPrefix(t, "Write at") || strings.HasPrefix(t, "Previous read at") || strings.HasPrefix(t, "Previous write at")) && i+1 < len(lines) {
				fn := strings.TrimSpace(lines[i+1])
				if j := strings.LastIndex(fn, "/"); j >= 0 {
					fn = fn[j+1:]
				}
				if j := strings.Index(fn, "("); j > 0 && strings.HasSuffix(fn, ")") {
					fn = fn[:strings.LastIndex(fn, "(")]
				}
				fns = append(fns, fn)
			}
		}
		sort.Strings(fns)
		// a race whose two accesses are both in test-side code (the repository's TestServer, the pass's own in-process
		// node and test functions, package testing) says nothing about the driver
		testSide := len(fns) > 0
		for _, fn := range fns {
			isTest := false
			for _, pat := range []string{"TestServer", "vrServer", "vrConn", "vrLogger", "testLogger", "TestVerif", "testing."} {
				if strings.Contains(fn, pat) {
					isTest = true
				}
			}
			if !isTest {
				testSide = false
			}
		}
		if testSide {
			ignored++
			continue
		}
		key := "race:" + strings.Join(fns, "|")
		if !keys[key] {
			keys[key] = true
			end := len(blk)
			if end > 3000 {
				end = 3000
			}
			r.Violation(key, "data race reported by the free-running -race pass:"+blk[:end], map[string]string{"log": "race detector output", "report": blk[:end]})
		}
	}
	r.Extra("race_pass", map[string]interface{}{"runs": os.Getenv("VERIF_RACE_RUNS"), "race_reports": len(blocks) - 1, "distinct": len(keys), "ignored_test_side_only": ignored,
		"note": "free-running go test -race of harness/<id>/race/*_test.go against the repository's in-process test server; sampled, not exhaustive, never decides the property on its own except by reporting a race"})
}

// Finish writes the evidence file and returns the process exit code.
func (r *Run) Finish(exhaustive bool) int {
	r.ingestRaceLog()
	r.mu.Lock()
	defer r.mu.Unlock()
	cov := map[string]interface{}{}
	for k, v := range r.extra {
		cov[k] = v
	}
	cov["evaluations"] = r.evals
	cov["distinct_nontrivial"] = len(r.distinct)
	cov["rule"] = r.rule
	if len(r.samples) == 0 {
		r.samples = []interface{}{"(no sample recorded)"}
	}
	cov["samples"] = r.samples
	cov["exhaustive"] = exhaustive
	if r.useMC {
		cov["states"] = r.States
		cov["transitions"] = r.Transitions
		cov["traces_validated_against_impl"] = r.Traces
	}
	kh := []string{}
	for k := range r.knownHit {
		kh = append(kh, k)
	}
	sort.Strings(kh)
	cov["known_findings_reproduced"] = kh
	// evidence of a companion worker (the controlled-scheduler part of a native check) is embedded
	extraViol := 0
	if f := os.Getenv("VERIF_EXTRA_EVIDENCE"); f != "" {
		if b, err := os.ReadFile(f); err == nil {
			var ex map[string]interface{}
			if json.Unmarshal(b, &ex) == nil {
				cov["controlled_scheduler_part"] = ex["coverage"]
				if v, ok := ex["violations"].(float64); ok {
					extraViol = int(v)
				}
				if c, ok := ex["coverage"].(map[string]interface{}); ok {
					for _, k := range []string{"states", "transitions", "traces_validated_against_impl"} {
						if v, ok := c[k].(float64); ok {
							cov[k] = int64(v)
						}
					}
				}
			} else {
				r.infra = append(r.infra, "companion evidence unreadable")
			}
		} else {
			r.infra = append(r.infra, "companion evidence missing: "+err.Error())
		}
	}
	var stale []string
	for k := range r.known {
		if !r.knownHit[k] {
			stale = append(stale, k)
		}
	}
	sort.Strings(stale)
	if len(stale) > 0 {
		cov["known_findings_not_reproduced_this_run"] = stale
	}
	ev := map[string]interface{}{
		"property_id": r.ID, "tier": r.Tier, "seed": r.Seed, "level": r.Level,
		"coverage": cov, "assumptions": r.assume,
		"wall_s":     float64(time.Since(r.start).Milliseconds()) / 1000,
		"violations": r.violations + extraViol,
	}
	if r.assume == nil {
		ev["assumptions"] = []string{}
	}
	if len(r.infra) > 0 {
		ev["infrastructure_errors"] = r.infra
	}
	b, _ := json.MarshalIndent(ev, "", " ")
	os.MkdirAll(filepath.Dir(r.evidencePath), 0o755)
	if err := os.WriteFile(r.evidencePath, append(b, '\n'), 0o644); err != nil {
		fmt.Fprintf(os.Stderr, "cannot write evidence: %v\n", err)
		return 2
	}
	fmt.Printf("%s %s: evaluations=%d distinct_nontrivial=%d states=%d transitions=%d violations=%d known=%d exhaustive=%v wall=%.1fs\n",
		r.ID, r.Tier, r.evals, len(r.distinct), r.States, r.Transitions, r.violations, len(r.knownHit), exhaustive, time.Since(r.start).Seconds())
	if r.violations > 0 {
		return 1
	}
	if len(r.infra) > 0 {
		return 2
	}
	return 0
}

// KeyHash is the 8-byte digest used for distinct counting (for shard merging).
func KeyHash(key string) [8]byte {
	h := sha1.Sum([]byte(key))
	var k [8]byte
	copy(k[:], h[:8])
	return k
}

var _ = binary.BigEndian
