// Package mcreport turns explorer results into evidence.
package mcreport

import (
	"fmt"
	"sort"

	"verif/engine/report"
	"verif/engine/vsched"
)

type ScenarioStat struct {
	Scenario    string   `json:"scenario"`
	Bounds      string   `json:"bounds"`
	Completed   bool     `json:"completed"` // every execution within these bounds was explored
	Executions  int64    `json:"executions"`
	States      int64    `json:"states"`
	Transitions int64    `json:"transitions"`
	Pruned      int64    `json:"pruned_subtrees"`
	MaxDepth    int      `json:"max_choice_depth"`
	Outcomes    int      `json:"distinct_outcomes"`
	Truncated   bool     `json:"truncated"`
	StepLimited int64    `json:"step_limited_executions"`
	TopOutcomes []string `json:"top_outcomes,omitempty"`
}

type Collector struct {
	R          *report.Run
	Stats      []ScenarioStat
	Exhaustive bool
}

func New(r *report.Run) *Collector { return &Collector{R: r, Exhaustive: true} }

// Add merges one scenario's exploration result.
func (c *Collector) Add(res *vsched.Result) {
	r := c.R
	r.MC(res.States, res.Steps, res.Executions)
	st := ScenarioStat{Scenario: res.Scenario, Bounds: res.Bounds, Completed: !res.Truncated && res.StepLimited == 0, Executions: res.Executions, States: res.States,
		Transitions: res.Steps, Pruned: res.Pruned, MaxDepth: res.MaxDepth, Outcomes: len(res.Outcomes),
		Truncated: res.Truncated, StepLimited: res.StepLimited, TopOutcomes: res.SortedOutcomes(4)}
	c.Stats = append(c.Stats, st)
	if res.Truncated || res.StepLimited > 0 {
		c.Exhaustive = false
	}
	for k := range res.Outcomes {
		r.Case(res.Scenario+"/"+res.Bounds+"/"+k, true)
	}
	// evaluations = executions
	for i := int64(len(res.Outcomes)); i < res.Executions; i++ {
		r.Case("", false)
	}
	for _, t := range res.SampleTraces {
		if r.NeedSample() {
			r.Sample(map[string]interface{}{"scenario": res.Scenario, "bounds": res.Bounds, "choices": t})
		}
	}
	keys := make([]string, 0, len(res.Violations))
	for k := range res.Violations {
		keys = append(keys, k)
	}
	sort.Strings(keys)
	for _, k := range keys {
		v := res.Violations[k]
		r.Violation(v.Key, fmt.Sprintf("scenario %s (%s), %d executions; %s", res.Scenario, res.Bounds, v.Count, v.Detail), v)
	}
	for _, e := range res.Infra {
		r.Infra("%s: %s", res.Scenario, e)
	}
}

// Skipped records that a scenario's target level was not started because a lower level already ran out of budget.
func (c *Collector) Skipped(scenario string, target vsched.Bounds) {
	c.Stats = append(c.Stats, ScenarioStat{Scenario: scenario, Bounds: target.String(), Truncated: true})
	c.Exhaustive = false
}

func (c *Collector) Finish() int {
	c.R.Extra("scenarios", c.Stats)
	return c.R.Finish(c.Exhaustive)
}

// Def is one scenario with its bounds per tier.
type Def struct {
	Build    func() *vsched.Scenario
	Name     string
	Quick    vsched.Bounds
	Thorough vsched.Bounds
}
