package mcreport

import (
	"encoding/json"
	"flag"
	"fmt"
	"os"
	"runtime"
	"strings"
	"time"

	"verif/engine/report"
	"verif/engine/vsched"
)

var (
	flagOnly   = flag.String("only", "", "run only scenarios whose name contains this")
	flagBudget = flag.Duration("budget", 0, "wall-clock budget per scenario")
	flagShards = flag.Int("shards", runtime.NumCPU(), "worker processes per scenario")
	flagP      = flag.Int("p", -2, "override preemption bound")
	flagD      = flag.Int("d", -2, "override clock-deviation bound")
	flagF      = flag.Int("f", -2, "override fault bound")
	flagT      = flag.Int("t", -2, "override total deviation bound (0: none)")
	flagReplay = flag.String("replay", "", "re-run the execution recorded in this replay file and print its event log")
	flagList   = flag.Bool("list", false, "list scenarios")
)

// Main is the common main of a model-checking worker: serves shard children,
// replays, or explores every scenario at the tier's bounds and writes evidence.
// pre (optional) runs sequential sub-suites before the scenarios.
func Main(id, level, rule string, assumes []string, defs []Def, quickBudget, thoroughBudget time.Duration, pre func(r *report.Run)) {
	vsched.ServeShard(func(name string) *vsched.Scenario {
		for i := range defs {
			if defs[i].Name == name {
				return defs[i].Build()
			}
		}
		return nil
	})
	r := report.New(id, level)
	if *flagList {
		for _, d := range defs {
			fmt.Println(d.Name, "quick", d.Quick, "thorough", d.Thorough)
		}
		os.Exit(0)
	}
	if *flagReplay != "" {
		os.Exit(replay(*flagReplay, defs))
	}
	r.SetRule(rule)
	r.Assume(assumes...)
	if pre != nil && *flagOnly == "" {
		pre(r)
	}
	c := New(r)
	budget := quickBudget // per scenario
	if r.Thorough() {
		// thoroughBudget is the budget of the WHOLE check: it is shared equally by the scenarios (at least
		// one minute each); a scenario that hits its share reports truncated (exhaustive=false), never a violation
		n := 0
		for i := range defs {
			if *flagOnly == "" || strings.Contains(defs[i].Name, *flagOnly) {
				n++
			}
		}
		if n == 0 {
			n = 1
		}
		budget = thoroughBudget / time.Duration(n)
		if budget < time.Minute {
			budget = time.Minute
		}
	}
	if *flagBudget > 0 {
		budget = *flagBudget
	}
	for i := range defs {
		if *flagOnly != "" && !strings.Contains(defs[i].Name, *flagOnly) {
			continue
		}
		// Thorough tier: iterate the bound. Every level from the quick bounds up to the thorough target is explored
		// in turn within the scenario's budget, so that the evidence names the deepest level that was COMPLETED even
		// when the target level runs out of time (that level is then reported as truncated and exhaustive=false).
		lv := []vsched.Bounds{defs[i].Quick}
		if r.Thorough() {
			lv = levels(defs[i].Quick, defs[i].Thorough)
		}
		override := *flagP > -2 || *flagD > -2 || *flagF > -2 || *flagT > -2
		if override {
			lv = lv[len(lv)-1:]
		}
		start := time.Now()
		for li, b := range lv {
			sc := defs[i].Build()
			sc.Bounds = b
			if *flagP > -2 {
				sc.Bounds.P = *flagP
			}
			if *flagD > -2 {
				sc.Bounds.D = *flagD
			}
			if *flagF > -2 {
				sc.Bounds.F = *flagF
			}
			if *flagT > -2 {
				sc.Bounds.T = *flagT
			}
			sc.Budget = budget - time.Since(start)
			if li > 0 && sc.Budget < 3*time.Second {
				sc.Budget = 3 * time.Second
			}
			t0 := time.Now()
			res := vsched.ExploreSharded(sc, *flagShards)
			fmt.Fprintf(os.Stderr, "%-44s %-12s exec=%d states=%d steps=%d pruned=%d outcomes=%d depth=%d trunc=%v steplimited=%d viol=%d %.1fs\n", sc.Name, res.Bounds, res.Executions, res.States, res.Steps, res.Pruned, len(res.Outcomes), res.MaxDepth, res.Truncated, res.StepLimited, len(res.Violations), time.Since(t0).Seconds())
			c.Add(res)
			if res.Truncated {
				if li < len(lv)-1 {
					c.Skipped(sc.Name, lv[len(lv)-1])
				}
				break
			}
		}
	}
	os.Exit(c.Finish())
}

func replay(path string, defs []Def) int {
	b, err := os.ReadFile(path)
	if err != nil {
		fmt.Fprintln(os.Stderr, err)
		return 2
	}
	var f struct {
		Key    string
		Replay vsched.Violation
	}
	if err := json.Unmarshal(b, &f); err != nil {
		fmt.Fprintln(os.Stderr, err)
		return 2
	}
	for i := range defs {
		if defs[i].Name == f.Replay.Scenario {
			sc := defs[i].Build()
			o := sc.RunLogged(f.Replay.Choices)
			for _, e := range o.EventLog {
				fmt.Println(e)
			}
			fmt.Printf("outcome: %s observed=%v\n", o.Kind, o.Observed)
			fails := sc.FailuresOf(o)
			for _, fl := range fails {
				fmt.Printf("FAILURE %s: %s\n", fl.Key, fl.Detail)
				if fl.Key == f.Key {
					fmt.Printf("VIOLATION property=%s replay=%s\n", "replayed", path)
					return 1
				}
			}
			return 0
		}
	}
	fmt.Fprintf(os.Stderr, "scenario %q not found\n", f.Replay.Scenario)
	return 2
}

// levels lists the bounds explored in the thorough tier: the quick bounds, then every bound one step closer to the
// target in each component that is still below it, and finally the target itself.
func levels(q, t vsched.Bounds) []vsched.Bounds {
	if q == t {
		return []vsched.Bounds{t}
	}
	var out []vsched.Bounds
	cur := q
	for k := 0; k < 8; k++ {
		out = append(out, cur)
		next := cur
		step := func(c *int, tgt int) {
			if tgt >= 0 && *c >= 0 && *c < tgt {
				*c++
			}
		}
		step(&next.P, t.P)
		step(&next.D, t.D)
		step(&next.F, t.F)
		step(&next.T, t.T)
		if next == cur {
			break
		}
		cur = next
	}
	if out[len(out)-1] != t {
		out = append(out, t)
	}
	return out
}
