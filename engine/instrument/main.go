// Command instrument rewrites a scratch copy of the gocql module so that every
// goroutine spawn, channel operation, select, map iteration and use of
// sync / sync/atomic / time / context / math/rand / crypto/rand goes through
// verif/engine/vsched. It fails loudly on constructs it does not understand.
//
//	instrument -dir <module root> [-pkgs .,internal/streams]
package main

import (
	"bytes"
	"flag"
	"fmt"
	"go/ast"
	"go/build"
	"go/format"
	"go/importer"
	"go/parser"
	"go/token"
	"go/types"
	"os"
	"path/filepath"
	"sort"
	"strings"
)

var importMap = map[string][2]string{
	"sync":        {"sync", "verif/engine/vsched/vsync"},
	"sync/atomic": {"atomic", "verif/engine/vsched/vatomic"},
	"time":        {"time", "verif/engine/vsched/vtime"},
	"context":     {"context", "verif/engine/vsched/vcontext"},
	"math/rand":   {"rand", "verif/engine/vsched/vrand"},
	"crypto/rand": {"rand", "verif/engine/vsched/vcrand"},
}

func main() {
	dir := flag.String("dir", "", "module root")
	pkgs := flag.String("pkgs", ".,internal/streams", "comma-separated package dirs relative to -dir")
	tags := flag.String("tags", "verif", "build tags")
	flag.Parse()
	if *dir == "" {
		fatal("need -dir")
	}
	abs, _ := filepath.Abs(*dir)
	if err := os.Chdir(abs); err != nil {
		fatal("%v", err)
	}
	total := 0
	for _, p := range strings.Split(*pkgs, ",") {
		n, err := instrumentPkg(filepath.Join(abs, p), strings.Split(*tags, ","))
		if err != nil {
			fatal("%s: %v", p, err)
		}
		total += n
	}
	fmt.Fprintf(os.Stderr, "instrument: %d rewrites\n", total)
}

func fatal(f string, a ...interface{}) {
	fmt.Fprintf(os.Stderr, "instrument: "+f+"\n", a...)
	os.Exit(1)
}

type rewriter struct {
	fset *token.FileSet
	src  []byte
	file *ast.File
	info *types.Info
	pkg  *types.Package
	repl map[ast.Node]string
	n    int
	tmp  int
	err  error
}

func instrumentPkg(dir string, tags []string) (int, error) {
	ctxt := build.Default
	ctxt.BuildTags = tags
	ents, err := os.ReadDir(dir)
	if err != nil {
		return 0, err
	}
	fset := token.NewFileSet()
	var files []*ast.File
	var names []string
	srcs := map[string][]byte{}
	for _, e := range ents {
		name := e.Name()
		if e.IsDir() || !strings.HasSuffix(name, ".go") || strings.HasSuffix(name, "_test.go") {
			continue
		}
		ok, err := ctxt.MatchFile(dir, name)
		if err != nil || !ok {
			continue
		}
		path := filepath.Join(dir, name)
		b, err := os.ReadFile(path)
		if err != nil {
			return 0, err
		}
		f, err := parser.ParseFile(fset, path, b, parser.ParseComments)
		if err != nil {
			return 0, err
		}
		files = append(files, f)
		names = append(names, path)
		srcs[path] = b
	}
	if len(files) == 0 {
		return 0, fmt.Errorf("no files in %s", dir)
	}
	info := &types.Info{Types: map[ast.Expr]types.TypeAndValue{}, Uses: map[*ast.Ident]types.Object{}, Defs: map[*ast.Ident]types.Object{}}
	var terrs []error
	conf := types.Config{Importer: importer.ForCompiler(fset, "source", nil), Error: func(e error) { terrs = append(terrs, e) }}
	pkg, _ := conf.Check(files[0].Name.Name, fset, files, info)
	if len(terrs) > 0 {
		for i, e := range terrs {
			if i < 10 {
				fmt.Fprintln(os.Stderr, "instrument: type error:", e)
			}
		}
		return 0, fmt.Errorf("%d type errors", len(terrs))
	}
	total := 0
	for i, f := range files {
		r := &rewriter{fset: fset, src: srcs[names[i]], file: f, info: info, pkg: pkg, repl: map[ast.Node]string{}}
		out, err := r.run()
		if err != nil {
			return 0, fmt.Errorf("%s: %v", names[i], err)
		}
		total += r.n
		if out != nil {
			fm, err := format.Source(out)
			if err != nil {
				os.WriteFile(names[i]+".broken", out, 0o644)
				return 0, fmt.Errorf("%s: rewritten source does not parse: %v", names[i], err)
			}
			if err := os.WriteFile(names[i], fm, 0o644); err != nil {
				return 0, err
			}
		}
	}
	return total, nil
}

func (r *rewriter) off(p token.Pos) int { return r.fset.Position(p).Offset }

func (r *rewriter) orig(n ast.Node) string { return string(r.src[r.off(n.Pos()):r.off(n.End())]) }

// text returns the rewritten source of n.
func (r *rewriter) text(n ast.Node) string {
	if rep, ok := r.repl[n]; ok {
		return rep
	}
	var b bytes.Buffer
	pos := n.Pos()
	ast.Inspect(n, func(c ast.Node) bool {
		if c == nil || c == n {
			return true
		}
		if rep, ok := r.repl[c]; ok {
			b.Write(r.src[r.off(pos):r.off(c.Pos())])
			b.WriteString(rep)
			pos = c.End()
			return false
		}
		return true
	})
	b.Write(r.src[r.off(pos):r.off(n.End())])
	return b.String()
}

func (r *rewriter) fail(n ast.Node, f string, a ...interface{}) {
	if r.err == nil {
		r.err = fmt.Errorf("%s: %s", r.fset.Position(n.Pos()), fmt.Sprintf(f, a...))
	}
}

func (r *rewriter) fresh(p string) string {
	r.tmp++
	return fmt.Sprintf("__vs_%s%d", p, r.tmp)
}

func (r *rewriter) isChan(e ast.Expr) bool {
	t := r.info.TypeOf(e)
	if t == nil {
		return false
	}
	_, ok := t.Underlying().(*types.Chan)
	return ok
}

func (r *rewriter) isMap(e ast.Expr) bool {
	t := r.info.TypeOf(e)
	if t == nil {
		return false
	}
	_, ok := t.Underlying().(*types.Map)
	return ok
}

func (r *rewriter) isBuiltin(id *ast.Ident, name string) bool {
	if id.Name != name {
		return false
	}
	_, ok := r.info.Uses[id].(*types.Builtin)
	return ok
}

// constOrNil: expression that must stay inline when hoisting arguments.
func (r *rewriter) constOrNil(e ast.Expr) bool {
	tv, ok := r.info.Types[e]
	if !ok {
		return false
	}
	if tv.Value != nil || tv.IsNil() {
		return true
	}
	return false
}

func simpleExpr(e ast.Expr) bool {
	switch x := e.(type) {
	case *ast.Ident:
		return true
	case *ast.SelectorExpr:
		return simpleExpr(x.X)
	case *ast.ParenExpr:
		return simpleExpr(x.X)
	case *ast.StarExpr:
		return simpleExpr(x.X)
	}
	return false
}

func (r *rewriter) run() ([]byte, error) {
	// post-order traversal
	var stack []ast.Node
	parent := func() ast.Node {
		if len(stack) >= 2 {
			return stack[len(stack)-2]
		}
		return nil
	}
	ast.Inspect(r.file, func(n ast.Node) bool {
		if n == nil {
			top := stack[len(stack)-1]
			r.visit(top, parent())
			stack = stack[:len(stack)-1]
			return true
		}
		stack = append(stack, n)
		return true
	})
	if r.err != nil {
		return nil, r.err
	}
	if len(r.repl) == 0 {
		return nil, nil
	}
	// assemble file; add vsched import after the package clause
	var b bytes.Buffer
	end := r.off(r.file.Name.End())
	b.Write(r.src[:end])
	b.WriteString("\n\nimport vsched \"verif/engine/vsched\"\n")
	pos := r.file.Name.End()
	ast.Inspect(r.file, func(c ast.Node) bool {
		if c == nil || c == r.file {
			return true
		}
		if c.Pos() < pos {
			return true // package name etc.
		}
		if rep, ok := r.repl[c]; ok {
			b.Write(r.src[r.off(pos):r.off(c.Pos())])
			b.WriteString(rep)
			pos = c.End()
			return false
		}
		return true
	})
	b.Write(r.src[r.off(pos):])
	b.WriteString("\n\nvar _ = vsched.Active\n")
	return b.Bytes(), nil
}

func (r *rewriter) visit(n, parent ast.Node) {
	switch x := n.(type) {
	case *ast.ImportSpec:
		path := strings.Trim(x.Path.Value, "\"")
		if m, ok := importMap[path]; ok {
			name := m[0]
			if x.Name != nil {
				name = x.Name.Name
			}
			r.repl[n] = fmt.Sprintf("%s %q", name, m[1])
			r.n++
		}
	case *ast.GoStmt:
		r.goStmt(x)
	case *ast.SendStmt:
		if _, inComm := parent.(*ast.CommClause); inComm {
			return // handled by the select rewrite
		}
		r.repl[n] = fmt.Sprintf("vsched.Send(%s, %s)", r.text(x.Chan), r.sendVal(x.Value))
		r.n++
	case *ast.UnaryExpr:
		if x.Op != token.ARROW {
			return
		}
		// `v, ok := <-ch` and comm clauses are handled by their parents
		r.repl[n] = fmt.Sprintf("vsched.Recv(%s)", r.text(x.X))
		r.n++
	case *ast.AssignStmt:
		if len(x.Lhs) == 2 && len(x.Rhs) == 1 {
			if u, ok := ast.Unparen(x.Rhs[0]).(*ast.UnaryExpr); ok && u.Op == token.ARROW {
				r.repl[u] = fmt.Sprintf("vsched.Recv2(%s)", r.text(u.X))
			}
		}
	case *ast.ValueSpec:
		if len(x.Names) == 2 && len(x.Values) == 1 {
			if u, ok := ast.Unparen(x.Values[0]).(*ast.UnaryExpr); ok && u.Op == token.ARROW {
				r.repl[u] = fmt.Sprintf("vsched.Recv2(%s)", r.text(u.X))
			}
		}
	case *ast.CallExpr:
		if id, ok := x.Fun.(*ast.Ident); ok && r.isBuiltin(id, "close") && len(x.Args) == 1 {
			r.repl[n] = fmt.Sprintf("vsched.Close(%s)", r.text(x.Args[0]))
			r.n++
		}
	case *ast.SelectStmt:
		// a label on a select can only be a goto target or a break target; the
		// replacement is a block, so a `break L` would fail to compile (loudly).
		r.selectStmt(x)
	case *ast.RangeStmt:
		r.rangeStmt(x, parent)
	}
}

func (r *rewriter) sendVal(v ast.Expr) string {
	if tv, ok := r.info.Types[v]; ok && tv.IsNil() {
		return "vsched.Nil{}"
	}
	return r.text(v)
}

func (r *rewriter) goStmt(g *ast.GoStmt) {
	call := g.Call
	var pre []string
	fun := ""
	if fl, ok := call.Fun.(*ast.FuncLit); ok {
		fun = r.text(fl)
	} else {
		f := r.fresh("f")
		pre = append(pre, fmt.Sprintf("%s := %s", f, r.text(call.Fun)))
		fun = f
	}
	var args []string
	for i, a := range call.Args {
		if r.constOrNil(a) {
			args = append(args, r.text(a))
			continue
		}
		if _, isLit := a.(*ast.FuncLit); isLit {
			args = append(args, r.text(a))
			continue
		}
		v := r.fresh("a")
		pre = append(pre, fmt.Sprintf("%s := %s", v, r.text(a)))
		s := v
		if call.Ellipsis.IsValid() && i == len(call.Args)-1 {
			s += "..."
		}
		args = append(args, s)
	}
	body := fmt.Sprintf("vsched.Go(func() { %s(%s) })", fun, strings.Join(args, ", "))
	if len(pre) == 0 {
		r.repl[g] = body
	} else {
		r.repl[g] = "{\n" + strings.Join(pre, "\n") + "\n" + body + "\n}"
	}
	r.n++
}

func (r *rewriter) selectStmt(s *ast.SelectStmt) {
	var hoist, cases, arms []string
	hasDefault := false
	idx := 0
	for _, st := range s.Body.List {
		cc := st.(*ast.CommClause)
		var body bytes.Buffer
		for _, bs := range cc.Body {
			body.WriteString(r.text(bs))
			body.WriteString("\n")
		}
		if cc.Comm == nil {
			hasDefault = true
			arms = append(arms, "case -1:\n"+body.String())
			continue
		}
		cv := r.fresh("c")
		switch c := cc.Comm.(type) {
		case *ast.SendStmt:
			vv := r.fresh("v")
			hoist = append(hoist, fmt.Sprintf("%s := %s", cv, r.text(c.Chan)))
			if tv, ok := r.info.Types[c.Value]; ok && (tv.IsNil() || tv.Value != nil) {
				vv = r.sendVal(c.Value)
			} else {
				hoist = append(hoist, fmt.Sprintf("%s := %s", vv, r.text(c.Value)))
			}
			cases = append(cases, fmt.Sprintf("vsched.SendCase(%s, %s)", cv, vv))
			arms = append(arms, fmt.Sprintf("case %d:\nvsched.SelSend(%s, %s)\n%s", idx, cv, vv, body.String()))
		case *ast.ExprStmt:
			u, ok := ast.Unparen(c.X).(*ast.UnaryExpr)
			if !ok || u.Op != token.ARROW {
				r.fail(c, "unexpected comm clause")
				return
			}
			hoist = append(hoist, fmt.Sprintf("%s := %s", cv, r.text(u.X)))
			cases = append(cases, fmt.Sprintf("vsched.RecvCase(%s)", cv))
			arms = append(arms, fmt.Sprintf("case %d:\nvsched.SelRecv(%s)\n%s", idx, cv, body.String()))
		case *ast.AssignStmt:
			if len(c.Rhs) != 1 {
				r.fail(c, "unexpected comm clause")
				return
			}
			u, ok := ast.Unparen(c.Rhs[0]).(*ast.UnaryExpr)
			if !ok || u.Op != token.ARROW {
				r.fail(c, "unexpected comm clause")
				return
			}
			hoist = append(hoist, fmt.Sprintf("%s := %s", cv, r.text(u.X)))
			cases = append(cases, fmt.Sprintf("vsched.RecvCase(%s)", cv))
			var lhs []string
			for _, l := range c.Lhs {
				lhs = append(lhs, r.text(l))
			}
			fn := "vsched.SelRecv"
			if len(c.Lhs) == 2 {
				fn = "vsched.SelRecv2"
			}
			use := ""
			if c.Tok == token.DEFINE {
				for _, l := range c.Lhs {
					if id, ok := l.(*ast.Ident); ok && id.Name != "_" {
						use += "_ = " + id.Name + "\n"
					}
				}
			}
			arms = append(arms, fmt.Sprintf("case %d:\n%s %s %s(%s)\n%s%s", idx, strings.Join(lhs, ", "), c.Tok.String(), fn, cv, use, body.String()))
		default:
			r.fail(cc, "unexpected comm clause %T", cc.Comm)
			return
		}
		idx++
	}
	args := append([]string{fmt.Sprint(hasDefault)}, cases...)
	r.repl[s] = "{\n" + strings.Join(hoist, "\n") + "\nswitch vsched.Select(" + strings.Join(args, ", ") + ") {\n" + strings.Join(arms, "") + "default:\npanic(\"vsched: bad select index\")\n}\n}"
	r.n++
}

func (r *rewriter) rangeStmt(s *ast.RangeStmt, parent ast.Node) {
	switch {
	case r.isChan(s.X):
		if !simpleExpr(s.X) {
			r.fail(s, "range over non-simple channel expression")
			return
		}
		if s.Value != nil {
			r.fail(s, "range over channel with two variables")
			return
		}
		ch := r.text(s.X)
		hdr := ""
		ok := r.fresh("ok")
		if s.Key == nil {
			hdr = fmt.Sprintf("if _, %s := vsched.Recv2(%s); !%s { break }\n", ok, ch, ok)
		} else if s.Tok == token.DEFINE {
			hdr = fmt.Sprintf("%s, %s := vsched.Recv2(%s)\nif !%s { break }\n_ = %s\n", r.text(s.Key), ok, ch, ok, r.text(s.Key))
		} else {
			hdr = fmt.Sprintf("var %s bool\n%s, %s = vsched.Recv2(%s)\nif !%s { break }\n", ok, r.text(s.Key), ok, ch, ok)
		}
		body := r.text(s.Body)
		r.repl[s] = "for {\n" + hdr + body + "\n}"
		r.n++
	case r.isMap(s.X):
		if s.Key == nil && s.Value == nil {
			return // `for range m`: order invisible
		}
		m := r.text(s.X)
		pre := ""
		if !simpleExpr(s.X) {
			if _, ok := parent.(*ast.LabeledStmt); ok {
				r.fail(s, "labeled range over non-simple map expression")
				return
			}
			mv := r.fresh("m")
			pre = fmt.Sprintf("%s := %s\n", mv, m)
			m = mv
		}
		kv := r.fresh("k")
		ok := r.fresh("ok")
		hdr := ""
		keyName := "_"
		if s.Key != nil {
			keyName = r.text(s.Key)
		}
		if s.Tok == token.DEFINE {
			if keyName != "_" {
				hdr += fmt.Sprintf("%s := %s\n_ = %s\n", keyName, kv, keyName)
			}
			if s.Value != nil && r.text(s.Value) != "_" {
				hdr += fmt.Sprintf("%s, %s := %s[%s]\nif !%s { continue }\n_ = %s\n", r.text(s.Value), ok, m, kv, ok, r.text(s.Value))
			} else {
				hdr += fmt.Sprintf("if _, %s := %s[%s]; !%s { continue }\n", ok, m, kv, ok)
			}
		} else {
			if keyName != "_" {
				hdr += fmt.Sprintf("%s = %s\n", keyName, kv)
			}
			if s.Value != nil && r.text(s.Value) != "_" {
				hdr += fmt.Sprintf("var %s bool\n%s, %s = %s[%s]\nif !%s { continue }\n", ok, r.text(s.Value), ok, m, kv, ok)
			} else {
				hdr += fmt.Sprintf("if _, %s := %s[%s]; !%s { continue }\n", ok, m, kv, ok)
			}
		}
		body := r.text(s.Body)
		loop := fmt.Sprintf("for _, %s := range vsched.SortedKeys(%s) {\n%s%s\n}", kv, m, hdr, body)
		if pre != "" {
			r.repl[s] = "{\n" + pre + loop + "\n}"
		} else {
			r.repl[s] = loop
		}
		r.n++
	}
}

var _ = sort.Strings
