package refcass

import (
	"bytes"
	"encoding/hex"
	"fmt"
	"math"
	"math/big"
	"reflect"
	"sort"
	"strconv"
	"testing"
)

// --- MurmurHash.hash3_x64_128 -------------------------------------------------

// Vectors written down FROM MEMORY (the canonical MurmurHash3_x64_128 test values,
// seed 0; for inputs whose bytes are all < 0x80 Cassandra's variant and the
// canonical one agree). Both 64-bit halves are checked.
func TestMurmurCanonicalVectorsFromMemory(t *testing.T) {
	for _, v := range []struct {
		in     string
		h1, h2 uint64
	}{
		{"hello", 0xcbd8a7b341bd9b02, 0x5b1e906a48ae1d19},
		{"The quick brown fox jumps over the lazy dog", 0xe34bbc7bbc071b6c, 0x7a433ca9c49a9347},
		{"", 0, 0},
	} {
		a, b := Hash3X64128([]byte(v.in), 0, len(v.in), 0)
		if uint64(a) != v.h1 || uint64(b) != v.h2 {
			t.Errorf("%q: got %016x %016x want %016x %016x", v.in, uint64(a), uint64(b), v.h1, v.h2)
		}
	}
}

// Vectors NOT from memory: data copied from gocql's internal/murmur/murmur_test.go,
// which attributes them to "the java datastax murmur3 implementation" and other
// drivers. Used as third-party data only (the port above does not derive from gocql
// code). The first one has bytes >= 0x80 in the tail, i.e. it exercises Cassandra's
// sign extension.
func TestMurmurThirdPartyVectors(t *testing.T) {
	key, _ := hex.DecodeString("00104327529fb645dd00b883ec39ae448bb800000400066a6b00")
	if got := Murmur3Token(key); got != -9223371632693506265 {
		t.Errorf("sign-extension vector: got %d", got)
	}
	series := []uint64{
		0x0000000000000000, 0x2ac9debed546a380, 0x649e4eaa7fc1708e, 0xce68f60d7c353bdb,
		0x0f95757ce7f38254, 0x0f04e459497f3fc1, 0x88c0a92586be0a27, 0x13eb9fb82606f7a6,
		0x8236039b7387354d, 0x4c1e87519fe738ba, 0x3f9652ac3effeb24, 0x3f33760ded9006c6,
		0xaed70a6631854cb1, 0x8a299a8f8e0e2da7, 0x624b675c779249a6, 0xa4b203bb1d90b9a3,
		0xa3293ad698ecb99a, 0xbc740023dbd50048, 0x3fe5ab9837d25cdd, 0x2d0338c1ca87d132,
	}
	sample := ""
	for i, want := range series {
		h, _ := Hash3X64128([]byte(sample), 0, len(sample), 0)
		if uint64(h) != want {
			t.Errorf("%q: got %016x want %016x", sample, uint64(h), want)
		}
		sample += strconv.Itoa(i % 10)
	}
	for in, want := range map[string]uint64{
		"hello, world":                                 0x342fac623a5ebc8e,
		"19 Jan 2038 at 3:14:07 AM":                    0xb89e5988b737affc,
		"The quick brown fox jumps over the lazy dog.": 0xcd99481f9ee902c9,
	} {
		h, _ := Hash3X64128([]byte(in), 0, len(in), 0)
		if uint64(h) != want {
			t.Errorf("%q: got %016x want %016x", in, uint64(h), want)
		}
	}
}

// canonicalUnsigned is the canonical (C++ reference) MurmurHash3_x64_128 with
// UNSIGNED tail bytes, written in a different style (uint64 throughout, table of
// shifts). Self-consistency: it must agree with the Cassandra port whenever no
// tail byte is >= 0x80, and the Cassandra port must equal it after replacing each
// tail byte b >= 0x80 by its sign extension (checked through the xor identity).
func canonicalUnsigned(data []byte, signExtendTail bool) (uint64, uint64) {
	const c1, c2 = uint64(0x87c37b91114253d5), uint64(0x4cf5ad432745937f)
	rot := func(x uint64, r uint) uint64 { return x<<r | x>>(64-r) }
	mix := func(k uint64) uint64 {
		k ^= k >> 33
		k *= 0xff51afd7ed558ccd
		k ^= k >> 33
		k *= 0xc4ceb9fe1a85ec53
		k ^= k >> 33
		return k
	}
	le := func(b []byte) uint64 {
		var v uint64
		for i := 7; i >= 0; i-- {
			v = v<<8 | uint64(b[i])
		}
		return v
	}
	var h1, h2 uint64
	n := len(data) / 16
	for i := 0; i < n; i++ {
		k1, k2 := le(data[i*16:]), le(data[i*16+8:])
		k1 *= c1
		k1 = rot(k1, 31)
		k1 *= c2
		h1 ^= k1
		h1 = rot(h1, 27)
		h1 += h2
		h1 = h1*5 + 0x52dce729
		k2 *= c2
		k2 = rot(k2, 33)
		k2 *= c1
		h2 ^= k2
		h2 = rot(h2, 31)
		h2 += h1
		h2 = h2*5 + 0x38495ab5
	}
	tail := data[n*16:]
	var k1, k2 uint64
	for i := len(tail) - 1; i >= 0; i-- {
		v := uint64(tail[i])
		if signExtendTail {
			v = uint64(int64(int8(tail[i])))
		}
		if i >= 8 {
			k2 ^= v << (uint(i-8) * 8)
		} else {
			k1 ^= v << (uint(i) * 8)
		}
	}
	if len(tail) > 8 {
		k2 *= c2
		k2 = rot(k2, 33)
		k2 *= c1
		h2 ^= k2
	}
	if len(tail) > 0 {
		k1 *= c1
		k1 = rot(k1, 31)
		k1 *= c2
		h1 ^= k1
	}
	h1 ^= uint64(len(data))
	h2 ^= uint64(len(data))
	h1 += h2
	h2 += h1
	h1, h2 = mix(h1), mix(h2)
	h1 += h2
	h2 += h1
	return h1, h2
}

func TestMurmurSelfConsistency(t *testing.T) {
	alphabet := []byte{0x00, 0x01, 0x7f, 0x80, 0xff}
	differs := 0
	for length := 0; length <= 40; length++ {
		for fill := 0; fill < 2; fill++ {
			base := make([]byte, length)
			for i := range base {
				if fill == 0 {
					base[i] = byte(i*7 + 1)
				} else {
					base[i] = byte(0xa5 + i*13)
				}
			}
			check := func(d []byte) {
				a, b := Hash3X64128(d, 0, len(d), 0)
				sa, sb := canonicalUnsigned(d, true)
				if uint64(a) != sa || uint64(b) != sb {
					t.Fatalf("%x: port %016x %016x, second implementation (signed tail) %016x %016x", d, uint64(a), uint64(b), sa, sb)
				}
				ua, _ := canonicalUnsigned(d, false)
				hi := false
				for _, x := range d[len(d)/16*16:] {
					hi = hi || x >= 0x80
				}
				if !hi && ua != uint64(a) {
					t.Fatalf("%x: no high tail byte but canonical differs", d)
				}
				if ua != uint64(a) {
					differs++
				}
			}
			check(base)
			for p := 0; p < length; p++ {
				for _, s := range alphabet {
					d := append([]byte{}, base...)
					d[p] = s
					check(d)
				}
			}
		}
	}
	if differs == 0 {
		t.Fatal("sign extension never mattered: test is vacuous")
	}
	// offset/length form: hashing a window equals hashing a copy of it
	buf := []byte("xxThe quick brown fox jumps over the lazy dogyy")
	a, b := Hash3X64128(buf, 2, len(buf)-4, 0)
	c, d := Hash3X64128(buf[2:len(buf)-2], 0, len(buf)-4, 0)
	if a != c || b != d {
		t.Fatal("offset form differs")
	}
}

func TestMurmur3Normalize(t *testing.T) {
	if Murmur3Normalize(math.MinInt64) != math.MaxInt64 || Murmur3Normalize(math.MinInt64+1) != math.MinInt64+1 || Murmur3Normalize(0) != 0 {
		t.Fatal("normalize")
	}
}

// --- RandomPartitioner --------------------------------------------------------

// Expected values computed outside Go (python3: abs(int.from_bytes(md5(k), 'big',
// signed=True))). "\x00" has the MD5 sign bit set (93b8...), so abs() matters.
func TestRandomToken(t *testing.T) {
	for in, want := range map[string]string{
		"hello": "123957004363873451094272536567338222994",
		"test":  "12707736894140473154801792860916528374",
		"a":     "16955237001963240173058271559858726497",
		"\xff":  "463733602705843015805947089201357461",
		"\x00":  "143927757573010354572009627285182898319",
	} {
		if got := RandomToken([]byte(in)).String(); got != want {
			t.Errorf("%q: got %s want %s", in, got, want)
		}
	}
	// signedBigEndian against hand values
	for _, v := range []struct {
		b    []byte
		want int64
	}{{[]byte{0x00}, 0}, {[]byte{0x7f}, 127}, {[]byte{0x80}, -128}, {[]byte{0xff}, -1}, {[]byte{0xff, 0x00}, -256}, {[]byte{0x80, 0x00}, -32768}, {[]byte{0x00, 0x80}, 128}} {
		if got := signedBigEndian(v.b); got.Cmp(big.NewInt(v.want)) != 0 {
			t.Errorf("%x: got %s want %d", v.b, got, v.want)
		}
	}
	// 0x80 00..00 (16 bytes) is -2^127, abs = 2^127 (the largest RandomPartitioner token)
	b := make([]byte, 16)
	b[0] = 0x80
	v := signedBigEndian(b)
	if v.Abs(v).Cmp(new(big.Int).Lsh(big.NewInt(1), 127)) != 0 {
		t.Error("-2^127")
	}
}

func TestCompareUnsignedBytes(t *testing.T) {
	ordered := [][]byte{{}, {0x00}, {0x00, 0x00}, {0x00, 0xff}, {0x01}, {0x7f}, {0x7f, 0x00}, {0x80}, {0xff}, {0xff, 0x00}, {0xff, 0xff}}
	for i := range ordered {
		for j := range ordered {
			want := 0
			if i < j {
				want = -1
			} else if i > j {
				want = 1
			}
			if got := CompareUnsignedBytes(ordered[i], ordered[j]); got != want {
				t.Errorf("%x vs %x: got %d want %d", ordered[i], ordered[j], got, want)
			}
			if got := bytes.Compare(ordered[i], ordered[j]); got != want {
				t.Errorf("bytes.Compare disagrees on %x vs %x", ordered[i], ordered[j])
			}
		}
	}
}

func TestRoutingKey(t *testing.T) {
	if got := RoutingKey([][]byte{{1, 2, 3}}); !bytes.Equal(got, []byte{1, 2, 3}) {
		t.Errorf("single: %x", got)
	}
	got := RoutingKey([][]byte{{0xca, 0xfe}, {}, {0x01}})
	want := []byte{0, 2, 0xca, 0xfe, 0, 0, 0, 0, 0, 1, 0x01, 0}
	if !bytes.Equal(got, want) {
		t.Errorf("composite: %x want %x", got, want)
	}
	long := make([]byte, 0x0102)
	got = RoutingKey([][]byte{long, {9}})
	if got[0] != 0x01 || got[1] != 0x02 || len(got) != 2+0x0102+1+2+1+1 {
		t.Errorf("length prefix not big-endian: % x", got[:2])
	}
}

// --- placement ----------------------------------------------------------------

func TestFirstTokenIndex(t *testing.T) {
	cmp := func(a, b int) int { return a - b }
	ring := []int{10, 20, 30}
	for start, want := range map[int]int{5: 0, 10: 0, 11: 1, 20: 1, 21: 2, 30: 2, 31: 0} {
		if got := FirstTokenIndex(ring, start, cmp); got != want {
			t.Errorf("start %d: got %d want %d", start, got, want)
		}
	}
	if got := FirstTokenIndex([]int{7}, 99, cmp); got != 0 {
		t.Error("single")
	}
}

// Hand-worked placements (worked on paper from the algorithm's description in the
// Cassandra documentation: "replicas are placed clockwise, preferring distinct racks").
func TestPlacementHandCases(t *testing.T) {
	// SimpleStrategy, 3 nodes x 2 adjacent vnodes: A A B B C C, rf 2 from position 0 -> A, B
	topo := &Topology{Endpoints: []Endpoint{{"dc1", "r1"}, {"dc1", "r1"}, {"dc1", "r1"}}, TokenOwner: []int{0, 0, 1, 1, 2, 2}}
	eq(t, "simple vnodes", SimpleStrategyEndpoints(2, topo, 0), []int{0, 1})
	eq(t, "simple vnodes wrap", SimpleStrategyEndpoints(2, topo, 5), []int{2, 0})
	eq(t, "simple rf0", SimpleStrategyEndpoints(0, topo, 3), []int{})
	eq(t, "simple rf>n", SimpleStrategyEndpoints(7, topo, 3), []int{1, 2, 0})
	// NTS same ring, one rack, rf 2: same answer, no node twice
	eq(t, "nts vnodes", NetworkTopologyEndpoints(map[string]int{"dc1": 2}, topo, 0), []int{0, 1})
	eq(t, "nts4 vnodes", NetworkTopologyEndpointsV4(map[string]int{"dc1": 2}, topo, 0), []int{0, 1})

	// racks: A(r1) B(r1) C(r2) in ring order, rf 2: A, skip B, C
	topo = &Topology{Endpoints: []Endpoint{{"dc1", "r1"}, {"dc1", "r1"}, {"dc1", "r2"}}, TokenOwner: []int{0, 1, 2}}
	eq(t, "nts racks", NetworkTopologyEndpoints(map[string]int{"dc1": 2}, topo, 0), []int{0, 2})
	eq(t, "nts4 racks", NetworkTopologyEndpointsV4(map[string]int{"dc1": 2}, topo, 0), []int{0, 2})
	// rf 3 > racks: A, (B skipped), C, then the skipped B
	eq(t, "nts racks rf3", NetworkTopologyEndpoints(map[string]int{"dc1": 3}, topo, 0), []int{0, 2, 1})
	eq(t, "nts4 racks rf3", NetworkTopologyEndpointsV4(map[string]int{"dc1": 3}, topo, 0), []int{0, 1, 2})
	// rf 9 > nodes: everything, once
	eq(t, "nts rf9", NetworkTopologyEndpoints(map[string]int{"dc1": 9}, topo, 1), []int{1, 2, 0})

	// two DCs: ring dc1:A dc2:X dc1:B dc2:Y ; {dc1:1, dc2:1} from A -> A, X; from X -> X, B
	topo = &Topology{Endpoints: []Endpoint{{"dc1", "r1"}, {"dc2", "r1"}, {"dc1", "r1"}, {"dc2", "r1"}}, TokenOwner: []int{0, 1, 2, 3}}
	eq(t, "two dcs", NetworkTopologyEndpoints(map[string]int{"dc1": 1, "dc2": 1}, topo, 0), []int{0, 1})
	eq(t, "two dcs from X", NetworkTopologyEndpoints(map[string]int{"dc1": 1, "dc2": 1}, topo, 1), []int{1, 2})
	// keyspace names a DC the ring lacks: contributes nothing, no failure
	eq(t, "unknown dc", NetworkTopologyEndpoints(map[string]int{"dc1": 1, "dcX": 2}, topo, 1), []int{2})
	eq(t, "unknown dc v4", NetworkTopologyEndpointsV4(map[string]int{"dc1": 1, "dcX": 2}, topo, 1), []int{2})
	// ring DC absent from keyspace and rf 0: nothing from it
	eq(t, "absent dc", NetworkTopologyEndpoints(map[string]int{"dc2": 2}, topo, 0), []int{1, 3})
	eq(t, "rf0 dc", NetworkTopologyEndpoints(map[string]int{"dc1": 0, "dc2": 1}, topo, 2), []int{3})
	eq(t, "nothing", NetworkTopologyEndpoints(map[string]int{"dcX": 3}, topo, 2), []int{})
}

func eq(t *testing.T, name string, got, want []int) {
	t.Helper()
	if len(got) == 0 && len(want) == 0 {
		return
	}
	if !reflect.DeepEqual(got, want) {
		t.Errorf("%s: got %v want %v", name, got, want)
	}
}

// Self-consistency over an enumerated space: the 2.x/3.0 and the 3.11/4.x
// NetworkTopologyStrategy algorithms place the same nodes with the same first
// replica; both give no node twice, at most min(rf, members) per DC, exactly that
// many when reachable, the range owner first iff its DC has rf > 0; with a single
// DC and a single rack NTS equals SimpleStrategy.
func TestPlacementSelfConsistency(t *testing.T) {
	locs := []Endpoint{{"dc1", "r1"}, {"dc1", "r2"}, {"dc2", "r1"}, {"dc2", "r2"}}
	cases := 0
	var rec func(owners []int, counts []int, n int)
	checkRing := func(owners []int, n int) {
		nl := 1
		for i := 0; i < n; i++ {
			nl *= 4
		}
		for l := 0; l < nl; l++ {
			eps := make([]Endpoint, n)
			x := l
			for i := range eps {
				eps[i] = locs[x%4]
				x /= 4
			}
			topo := &Topology{Endpoints: eps, TokenOwner: owners}
			members := map[string]int{}
			for _, e := range eps {
				members[e.DC]++
			}
			for rf1 := -1; rf1 <= 3; rf1++ {
				for rf2 := -1; rf2 <= 3; rf2++ {
					for rfx := -1; rfx <= 1; rfx += 2 {
						dcs := map[string]int{}
						if rf1 >= 0 {
							dcs["dc1"] = rf1
						}
						if rf2 >= 0 {
							dcs["dc2"] = rf2
						}
						if rfx >= 0 {
							dcs["dcX"] = 2
						}
						for start := range owners {
							cases++
							a := NetworkTopologyEndpoints(dcs, topo, start)
							b := NetworkTopologyEndpointsV4(dcs, topo, start)
							sa, sb := append([]int{}, a...), append([]int{}, b...)
							sort.Ints(sa)
							sort.Ints(sb)
							desc := fmt.Sprintf("owners=%v eps=%v dcs=%v start=%d old=%v v4=%v", owners, eps, dcs, start, a, b)
							if !reflect.DeepEqual(sa, sb) {
								t.Fatalf("old and 4.x algorithms differ: %s", desc)
							}
							if len(a) > 0 && a[0] != b[0] {
								t.Fatalf("first replica differs: %s", desc)
							}
							perDC := map[string]int{}
							for i, e := range sa {
								if i > 0 && sa[i-1] == e {
									t.Fatalf("duplicate: %s", desc)
								}
								perDC[eps[e].DC]++
							}
							for dc, m := range members {
								want := dcs[dc]
								if m < want {
									want = m
								}
								if perDC[dc] != want {
									t.Fatalf("dc %s has %d replicas, want %d: %s", dc, perDC[dc], want, desc)
								}
							}
							owner := owners[start]
							if dcs[eps[owner].DC] > 0 && (len(a) == 0 || a[0] != owner) {
								t.Fatalf("owner not first: %s", desc)
							}
						}
					}
				}
			}
			// one DC, one rack: NTS == SimpleStrategy (same order)
			one := make([]Endpoint, n)
			for i := range one {
				one[i] = Endpoint{"dc1", "r1"}
			}
			t1 := &Topology{Endpoints: one, TokenOwner: owners}
			for rf := 0; rf <= 4; rf++ {
				for start := range owners {
					s := SimpleStrategyEndpoints(rf, t1, start)
					a := NetworkTopologyEndpoints(map[string]int{"dc1": rf}, t1, start)
					b := NetworkTopologyEndpointsV4(map[string]int{"dc1": rf}, t1, start)
					if !(len(s) == 0 && len(a) == 0 && len(b) == 0) && (!reflect.DeepEqual(s, a) || !reflect.DeepEqual(s, b)) {
						t.Fatalf("simple %v nts %v nts4 %v owners=%v rf=%d start=%d", s, a, b, owners, rf, start)
					}
				}
			}
		}
	}
	rec = func(owners []int, counts []int, n int) {
		complete := len(counts) == n
		for _, c := range counts {
			if c == 0 {
				complete = false
			}
		}
		if complete && len(owners) > 0 {
			checkRing(append([]int{}, owners...), n)
		}
		if len(owners) >= 2*n {
			return
		}
		for e := 0; e < n; e++ {
			if e < len(counts) && counts[e] < 2 {
				counts[e]++
				rec(append(owners, e), counts, n)
				counts[e]--
			} else if e == len(counts) {
				rec(append(owners, e), append(counts, 1), n)
				break
			}
		}
	}
	for n := 1; n <= 3; n++ {
		rec(nil, nil, n)
	}
	if cases < 100000 {
		t.Fatalf("only %d cases", cases)
	}
	t.Logf("%d placement cases", cases)
}
