package refcass

import (
	"crypto/md5"
	"math"
	"math/big"
)

// Murmur3Normalize is Murmur3Partitioner.normalize: Long.MIN_VALUE -> Long.MAX_VALUE.
func Murmur3Normalize(v int64) int64 {
	if v == math.MinInt64 {
		return math.MaxInt64
	}
	return v
}

// Murmur3Token is Murmur3Partitioner.getToken(key) for a NON-EMPTY key:
//
//	long[] hash = new long[2];
//	MurmurHash.hash3_x64_128(key, key.position(), key.remaining(), 0, hash);
//	return new LongToken(normalize(hash[0]));
//
// For an empty key Cassandra returns the MINIMUM token (Long.MIN_VALUE) without
// hashing; empty partition keys are rejected by Cassandra ("Key may not be empty"),
// so that branch is exposed separately (Murmur3TokenOfEmptyKey) and the caller
// decides whether it is in the property's domain.
func Murmur3Token(key []byte) int64 {
	h0, _ := Hash3X64128(key, 0, len(key), 0)
	return Murmur3Normalize(h0)
}

// Murmur3TokenOfEmptyKey is Murmur3Partitioner.MINIMUM.token.
const Murmur3TokenOfEmptyKey int64 = math.MinInt64

// RandomToken is RandomPartitioner.getToken(key) for a NON-EMPTY key:
// FBUtilities.hashToBigInteger = new BigInteger(md5(key)).abs(), where
// BigInteger(byte[]) reads a big-endian two's-complement signed number.
// (For an empty key Cassandra returns MINIMUM = -1 without hashing.)
func RandomToken(key []byte) *big.Int {
	sum := md5.Sum(key)
	v := signedBigEndian(sum[:])
	return v.Abs(v)
}

// signedBigEndian is java.math.BigInteger(byte[]): two's complement, big-endian.
func signedBigEndian(b []byte) *big.Int {
	v := new(big.Int)
	neg := len(b) > 0 && b[0]&0x80 != 0
	if !neg {
		for _, x := range b {
			v.Lsh(v, 8)
			v.Or(v, big.NewInt(int64(x)))
		}
		return v
	}
	// negative: value = -(~b + 1)
	for _, x := range b {
		v.Lsh(v, 8)
		v.Or(v, big.NewInt(int64(^x)))
	}
	v.Add(v, big.NewInt(1))
	return v.Neg(v)
}

// CompareUnsignedBytes is the order of ByteOrderedPartitioner.BytesToken
// (FBUtilities.compareUnsigned): lexicographic on unsigned bytes, a proper prefix
// sorts first. Returns -1, 0, 1.
func CompareUnsignedBytes(a, b []byte) int {
	n := len(a)
	if len(b) < n {
		n = len(b)
	}
	for i := 0; i < n; i++ {
		x, y := int(a[i])&0xff, int(b[i])&0xff
		if x != y {
			if x < y {
				return -1
			}
			return 1
		}
	}
	switch {
	case len(a) < len(b):
		return -1
	case len(a) > len(b):
		return 1
	}
	return 0
}

// RoutingKey builds the partition key bytes Cassandra hashes, from the already
// serialised partition-key components in partition-key order:
//   - one component: the component's bytes as they are;
//   - several (CompositeType): for each component a 2-byte big-endian unsigned
//     length, the bytes, and an end-of-component byte 0x00.
func RoutingKey(components [][]byte) []byte {
	if len(components) == 1 {
		return append([]byte{}, components[0]...)
	}
	var out []byte
	for _, c := range components {
		out = append(out, byte(len(c)>>8), byte(len(c)))
		out = append(out, c...)
		out = append(out, 0)
	}
	return out
}
