// Package refcass holds independent ports of Apache Cassandra's own algorithms
// (org.apache.cassandra.utils.MurmurHash, org.apache.cassandra.dht.*Partitioner,
// org.apache.cassandra.locator.SimpleStrategy / NetworkTopologyStrategy and the
// CompositeType routing-key layout). They are written from the Cassandra Java
// source, statement by statement, and deliberately share no code and no structure
// with gocql: they are the oracle gocql's token and replica computations are
// compared with (properties C09, C10, C11).
//
// Java semantics that matter and how they are kept:
//   - `long` arithmetic wraps: Go int64 arithmetic wraps identically.
//   - `>>>` is a logical shift: done on uint64.
//   - `byte` is signed and `(long) key.get(i)` sign-extends: int64(int8(b)).
//   - `& 0xff` in getBlock makes the body blocks unsigned little-endian.
package refcass

// Java long literals above 2^63-1 are negative longs; a non-constant uint64 -> int64
// conversion in Go reinterprets the bits the same way.
var (
	uC1, uC2, uF1, uF2 uint64 = 0x87c37b91114253d5, 0x4cf5ad432745937f, 0xff51afd7ed558ccd, 0xc4ceb9fe1a85ec53

	constC1 = int64(uC1)
	constC2 = int64(uC2)
	fmixA   = int64(uF1)
	fmixB   = int64(uF2)
)

// javaLong converts a Java `(long) byteValue` (sign-extending).
func javaLong(b byte) int64 { return int64(int8(b)) }

// getBlock is MurmurHash.getBlock(key, offset, index): 8 bytes at offset+index*8,
// each masked with 0xff, little-endian.
func getBlock(key []byte, offset, index int) int64 {
	blockOffset := offset + (index << 3)
	return int64(uint64(key[blockOffset+0])&0xff) + (int64(uint64(key[blockOffset+1])&0xff) << 8) +
		(int64(uint64(key[blockOffset+2])&0xff) << 16) + (int64(uint64(key[blockOffset+3])&0xff) << 24) +
		(int64(uint64(key[blockOffset+4])&0xff) << 32) + (int64(uint64(key[blockOffset+5])&0xff) << 40) +
		(int64(uint64(key[blockOffset+6])&0xff) << 48) + (int64(uint64(key[blockOffset+7])&0xff) << 56)
}

// rotl64 is MurmurHash.rotl64: (v << n) | (v >>> (64 - n)).
func rotl64(v int64, n uint) int64 {
	return (v << n) | int64(uint64(v)>>(64-n))
}

// fmix is MurmurHash.fmix.
func fmix(k int64) int64 {
	k ^= int64(uint64(k) >> 33)
	k *= fmixA // 0xff51afd7ed558ccdL
	k ^= int64(uint64(k) >> 33)
	k *= fmixB // 0xc4ceb9fe1a85ec53L
	k ^= int64(uint64(k) >> 33)
	return k
}

// Hash3X64128 is MurmurHash.hash3_x64_128(key, offset, length, seed, result).
// It returns result[0], result[1].
func Hash3X64128(key []byte, offset, length int, seed int64) (int64, int64) {
	nblocks := length >> 4 // Process as 128-bit blocks.

	h1 := seed
	h2 := seed

	c1 := constC1 // 0x87c37b91114253d5L
	c2 := constC2 // 0x4cf5ad432745937fL

	// body
	for i := 0; i < nblocks; i++ {
		k1 := getBlock(key, offset, i*2+0)
		k2 := getBlock(key, offset, i*2+1)

		k1 *= c1
		k1 = rotl64(k1, 31)
		k1 *= c2
		h1 ^= k1

		h1 = rotl64(h1, 27)
		h1 += h2
		h1 = h1*5 + 0x52dce729

		k2 *= c2
		k2 = rotl64(k2, 33)
		k2 *= c1
		h2 ^= k2

		h2 = rotl64(h2, 31)
		h2 += h1
		h2 = h2*5 + 0x38495ab5
	}

	// tail: advance offset to the unprocessed tail of the data.
	offset += nblocks * 16

	var k1, k2 int64
	rem := length & 15
	// Java switch with fall-through, written as a descending chain of ifs.
	if rem >= 15 {
		k2 ^= javaLong(key[offset+14]) << 48
	}
	if rem >= 14 {
		k2 ^= javaLong(key[offset+13]) << 40
	}
	if rem >= 13 {
		k2 ^= javaLong(key[offset+12]) << 32
	}
	if rem >= 12 {
		k2 ^= javaLong(key[offset+11]) << 24
	}
	if rem >= 11 {
		k2 ^= javaLong(key[offset+10]) << 16
	}
	if rem >= 10 {
		k2 ^= javaLong(key[offset+9]) << 8
	}
	if rem >= 9 {
		k2 ^= javaLong(key[offset+8]) << 0
		k2 *= c2
		k2 = rotl64(k2, 33)
		k2 *= c1
		h2 ^= k2
	}
	if rem >= 8 {
		k1 ^= javaLong(key[offset+7]) << 56
	}
	if rem >= 7 {
		k1 ^= javaLong(key[offset+6]) << 48
	}
	if rem >= 6 {
		k1 ^= javaLong(key[offset+5]) << 40
	}
	if rem >= 5 {
		k1 ^= javaLong(key[offset+4]) << 32
	}
	if rem >= 4 {
		k1 ^= javaLong(key[offset+3]) << 24
	}
	if rem >= 3 {
		k1 ^= javaLong(key[offset+2]) << 16
	}
	if rem >= 2 {
		k1 ^= javaLong(key[offset+1]) << 8
	}
	if rem >= 1 {
		k1 ^= javaLong(key[offset])
		k1 *= c1
		k1 = rotl64(k1, 31)
		k1 *= c2
		h1 ^= k1
	}

	// finalization
	h1 ^= int64(length)
	h2 ^= int64(length)

	h1 += h2
	h2 += h1

	h1 = fmix(h1)
	h2 = fmix(h2)

	h1 += h2
	h2 += h1

	return h1, h2
}
