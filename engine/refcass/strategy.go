package refcass

// Ports of org.apache.cassandra.locator.SimpleStrategy and
// NetworkTopologyStrategy.calculateNaturalEndpoints, with the pieces of
// TokenMetadata they rely on (sortedTokens, getEndpoint, ringIterator,
// Topology.getDatacenterEndpoints / getDatacenterRacks).
//
// Endpoints are identified by their index in Topology.Endpoints (the analogue of
// an InetAddress); a node owning several tokens (vnodes) appears at several ring
// positions with the same index.

// Endpoint is a ring member with the location the snitch reports for it.
type Endpoint struct {
	DC, Rack string
}

// Topology is the part of TokenMetadata the strategies read: the sorted ring and
// who owns each token, plus every member's location.
type Topology struct {
	Endpoints []Endpoint
	// TokenOwner[i] is the endpoint owning the i-th smallest ring token
	// (tokenMetadata.getEndpoint(sortedTokens().get(i))).
	TokenOwner []int
}

// FirstTokenIndex is TokenMetadata.firstTokenIndex(ring, start, insertMin=false):
//
//	int i = Collections.binarySearch(ring, start);
//	if (i < 0) { i = (i + 1) * (-1); if (i >= ring.size()) i = insertMin ? -1 : 0; }
//	return i;
//
// ring is sorted ascending by cmp; the result is the index of the ring token that
// ends the range (previous token, token] containing start, wrapping to 0.
func FirstTokenIndex[T any](ring []T, start T, cmp func(a, b T) int) int {
	// Collections.binarySearch
	low, high := 0, len(ring)-1
	i := 0
	found := false
	for low <= high {
		mid := int(uint(low+high) >> 1)
		c := cmp(ring[mid], start)
		if c < 0 {
			low = mid + 1
		} else if c > 0 {
			high = mid - 1
		} else {
			i, found = mid, true
			break
		}
	}
	if !found {
		i = -(low + 1)
	}
	if i < 0 {
		i = (i + 1) * (-1)
		if i >= len(ring) {
			i = 0
		}
	}
	return i
}

// ringIterator is TokenMetadata.ringIterator(ring, start, includeMin=false): every
// ring position once, clockwise from startIndex.
func ringIterator(size, startIndex int) []int {
	out := make([]int, 0, size)
	if size == 0 {
		return out
	}
	j := startIndex
	for {
		out = append(out, j)
		j = (j + 1) % size
		if j == startIndex {
			break
		}
	}
	return out
}

// SimpleStrategyEndpoints is SimpleStrategy.calculateNaturalEndpoints:
//
//	int replicas = getReplicationFactor();
//	ArrayList<Token> tokens = metadata.sortedTokens();
//	List<InetAddress> endpoints = new ArrayList<>(replicas);
//	if (tokens.isEmpty()) return endpoints;
//	Iterator<Token> iter = TokenMetadata.ringIterator(tokens, token, false);
//	while (endpoints.size() < replicas && iter.hasNext()) {
//	    InetAddress ep = metadata.getEndpoint(iter.next());
//	    if (!endpoints.contains(ep)) endpoints.add(ep);
//	}
//	return endpoints;
//
// startIndex = FirstTokenIndex(sortedTokens, searchToken).
func SimpleStrategyEndpoints(rf int, t *Topology, startIndex int) []int {
	endpoints := []int{}
	if len(t.TokenOwner) == 0 {
		return endpoints
	}
	for _, pos := range ringIterator(len(t.TokenOwner), startIndex) {
		if !(len(endpoints) < rf) {
			break
		}
		ep := t.TokenOwner[pos]
		if !containsInt(endpoints, ep) {
			endpoints = append(endpoints, ep)
		}
	}
	return endpoints
}

func containsInt(s []int, v int) bool {
	for _, x := range s {
		if x == v {
			return true
		}
	}
	return false
}

// linkedSet is java.util.LinkedHashSet<InetAddress>: insertion ordered, no repeats.
type linkedSet struct {
	order []int
	in    map[int]bool
}

func newLinkedSet() *linkedSet { return &linkedSet{in: map[int]bool{}} }

// add returns true if the element was not yet present (Set.add).
func (s *linkedSet) add(v int) bool {
	if s.in[v] {
		return false
	}
	s.in[v] = true
	s.order = append(s.order, v)
	return true
}
func (s *linkedSet) size() int { return len(s.order) }

// datacenterEndpoints is topology.getDatacenterEndpoints(): dc -> members.
func (t *Topology) datacenterEndpoints() map[string][]int {
	m := map[string][]int{}
	for i, e := range t.Endpoints {
		m[e.DC] = append(m[e.DC], i)
	}
	return m
}

// datacenterRacks is topology.getDatacenterRacks(): dc -> rack -> members.
func (t *Topology) datacenterRacks() map[string]map[string][]int {
	m := map[string]map[string][]int{}
	for i, e := range t.Endpoints {
		if m[e.DC] == nil {
			m[e.DC] = map[string][]int{}
		}
		m[e.DC][e.Rack] = append(m[e.DC][e.Rack], i)
	}
	return m
}

// NetworkTopologyEndpoints is NetworkTopologyStrategy.calculateNaturalEndpoints as
// in Cassandra 2.1 - 3.0 (one pass over the ring; per-DC replica sets; seen racks;
// endpoints skipped because their rack repeats, appended once every rack of the
// DC has been seen; a DC is satisfied at min(rf, members of the DC)). datacenters
// is the keyspace's replication map (DC name -> rf); a DC of the ring that is not
// in it receives nothing, a DC in it that the ring does not contain is satisfied
// with nothing (min(0, rf) = 0).
func NetworkTopologyEndpoints(datacenters map[string]int, t *Topology, startIndex int) []int {
	// we want to preserve insertion order so that the first added endpoint becomes primary
	replicas := newLinkedSet()
	// replicas we have found in each DC
	dcReplicas := map[string]map[int]bool{}
	for dc := range datacenters {
		dcReplicas[dc] = map[int]bool{}
	}
	// all endpoints in each DC, so we can check when we have exhausted all the members of a DC
	allEndpoints := t.datacenterEndpoints()
	// all racks in a DC so we can check when we have exhausted all racks in a DC
	racks := t.datacenterRacks()

	// tracks the racks we have already placed replicas in
	seenRacks := map[string]map[string]bool{}
	for dc := range datacenters {
		seenRacks[dc] = map[string]bool{}
	}
	// tracks the endpoints that we skipped over while looking for unique racks
	skippedDcEndpoints := map[string]*linkedSet{}
	for dc := range datacenters {
		skippedDcEndpoints[dc] = newLinkedSet()
	}

	hasSufficientReplicasDC := func(dc string) bool {
		rf := datacenters[dc]
		n := len(allEndpoints[dc])
		if rf < n {
			n = rf
		}
		return len(dcReplicas[dc]) >= n
	}
	hasSufficientReplicas := func() bool {
		for dc := range datacenters {
			if !hasSufficientReplicasDC(dc) {
				return false
			}
		}
		return true
	}

	for _, pos := range ringIterator(len(t.TokenOwner), startIndex) {
		if hasSufficientReplicas() {
			break
		}
		ep := t.TokenOwner[pos]
		dc := t.Endpoints[ep].DC
		// have we already found all replicas for this dc?
		if _, ok := datacenters[dc]; !ok || hasSufficientReplicasDC(dc) {
			continue
		}
		// can we skip checking the rack?
		if len(seenRacks[dc]) == len(racks[dc]) {
			dcReplicas[dc][ep] = true
			replicas.add(ep)
		} else {
			rack := t.Endpoints[ep].Rack
			// is this a new rack?
			if seenRacks[dc][rack] {
				skippedDcEndpoints[dc].add(ep)
			} else {
				dcReplicas[dc][ep] = true
				replicas.add(ep)
				seenRacks[dc][rack] = true
				// if we've run out of distinct racks, add the hosts we skipped past already (up to RF)
				if len(seenRacks[dc]) == len(racks[dc]) {
					for _, nextSkipped := range skippedDcEndpoints[dc].order {
						if hasSufficientReplicasDC(dc) {
							break
						}
						dcReplicas[dc][nextSkipped] = true
						replicas.add(nextSkipped)
					}
				}
			}
		}
	}
	return append([]int{}, replicas.order...)
}

// NetworkTopologyEndpointsV4 is NetworkTopologyStrategy.calculateNaturalEndpoints as
// in Cassandra 3.0.11+/3.11/4.x (the DatacenterEndpoints rewrite: rfLeft =
// min(rf, members), acceptableRackRepeats = rf - racks of the DC; a rack repeat is
// accepted immediately while repeats remain). It places the same nodes as the older
// algorithm, possibly in another order; the package test enumerates small rings and
// checks the two agree as sets and on the first element.
func NetworkTopologyEndpointsV4(datacenters map[string]int, t *Topology, startIndex int) []int {
	type location struct{ dc, rack string }
	type datacenterEndpoints struct {
		rfLeft                int
		acceptableRackRepeats int
	}
	replicas := newLinkedSet()
	seenRacks := map[location]bool{}

	allEndpoints := t.datacenterEndpoints()
	racks := t.datacenterRacks()

	dcsToFill := 0
	dcs := map[string]*datacenterEndpoints{}
	// Create a DatacenterEndpoints object for each non-empty DC.
	for dc, rf := range datacenters {
		nodeCount := len(allEndpoints[dc])
		if rf <= 0 || nodeCount <= 0 {
			continue
		}
		rfLeft := rf
		if nodeCount < rfLeft {
			rfLeft = nodeCount
		}
		dcs[dc] = &datacenterEndpoints{rfLeft: rfLeft, acceptableRackRepeats: rf - len(racks[dc])}
		dcsToFill++
	}

	addEndpointAndCheckIfDone := func(d *datacenterEndpoints, ep int, loc location) bool {
		if d.rfLeft == 0 { // done()
			return false
		}
		if !seenRacks[loc] { // racks.add(location)
			seenRacks[loc] = true
			// New rack.
			d.rfLeft--
			if !replicas.add(ep) {
				panic("refcass: assert added")
			}
			return d.rfLeft == 0
		}
		if d.acceptableRackRepeats <= 0 {
			// There must be rfLeft distinct racks left, do not add any more rack repeats.
			return false
		}
		if !replicas.add(ep) {
			// Cannot repeat a node.
			return false
		}
		// Added a node that is from an already met rack to match RF when there aren't enough racks.
		d.acceptableRackRepeats--
		d.rfLeft--
		return d.rfLeft == 0
	}

	for _, pos := range ringIterator(len(t.TokenOwner), startIndex) {
		if !(dcsToFill > 0) {
			break
		}
		ep := t.TokenOwner[pos]
		loc := location{t.Endpoints[ep].DC, t.Endpoints[ep].Rack}
		d := dcs[loc.dc]
		if d != nil && addEndpointAndCheckIfDone(d, ep, loc) {
			dcsToFill--
		}
	}
	return append([]int{}, replicas.order...)
}
