package value

import (
	"bytes"
	"encoding/hex"
	"math/big"
	"strings"
	"testing"
)

func hx(s string) []byte {
	b, err := hex.DecodeString(strings.ReplaceAll(s, " ", ""))
	if err != nil {
		panic(err)
	}
	return b
}

func bigS(s string) *big.Int {
	x, ok := new(big.Int).SetString(s, 10)
	if !ok {
		panic(s)
	}
	return x
}

// Expected byte strings below are written by hand (or with a pocket
// calculator) from the wording of the protocol specification; none is
// produced by the code under test.
type vec struct {
	name  string
	t     *Type
	v     Value
	proto int
	want  string // hex
}

var text, intT, blob = Scalar(Text), Scalar(Int), Scalar(Blob)

var vectors = []vec{
	// 6.17 varint: the spec's own table
	{"varint 0", Scalar(Varint), IntV(0), 4, "00"},
	{"varint 1", Scalar(Varint), IntV(1), 4, "01"},
	{"varint 127", Scalar(Varint), IntV(127), 4, "7F"},
	{"varint 128", Scalar(Varint), IntV(128), 4, "0080"},
	{"varint 129", Scalar(Varint), IntV(129), 4, "0081"},
	{"varint -1", Scalar(Varint), IntV(-1), 4, "FF"},
	{"varint -128", Scalar(Varint), IntV(-128), 4, "80"},
	{"varint -129", Scalar(Varint), IntV(-129), 4, "FF7F"},
	{"varint 255", Scalar(Varint), IntV(255), 4, "00FF"},
	{"varint 256", Scalar(Varint), IntV(256), 4, "0100"},
	{"varint -256", Scalar(Varint), IntV(-256), 4, "FF00"},
	{"varint -32768", Scalar(Varint), IntV(-32768), 4, "8000"},
	{"varint -32769", Scalar(Varint), IntV(-32769), 4, "FF7FFF"},
	{"varint 2^63-1", Scalar(Varint), IntV(9223372036854775807), 4, "7FFFFFFFFFFFFFFF"},
	{"varint 2^63", Scalar(Varint), BigV(bigS("9223372036854775808")), 4, "008000000000000000"},
	{"varint -2^63", Scalar(Varint), IntV(-9223372036854775808), 4, "8000000000000000"},
	{"varint -2^63-1", Scalar(Varint), BigV(bigS("-9223372036854775809")), 4, "FF7FFFFFFFFFFFFFFF"},
	{"varint 2^64-1", Scalar(Varint), BigV(bigS("18446744073709551615")), 4, "00FFFFFFFFFFFFFFFF"},
	{"varint 2^71", Scalar(Varint), BigV(bigS("2361183241434822606848")), 4, "00800000000000000000"},
	{"varint -2^71", Scalar(Varint), BigV(bigS("-2361183241434822606848")), 4, "800000000000000000"},
	// fixed width integers
	{"tinyint -128", Scalar(TinyInt), IntV(-128), 4, "80"},
	{"tinyint 127", Scalar(TinyInt), IntV(127), 4, "7F"},
	{"smallint -2", Scalar(SmallInt), IntV(-2), 4, "FFFE"},
	{"smallint 258", Scalar(SmallInt), IntV(258), 4, "0102"},
	{"int 1", intT, IntV(1), 1, "00000001"},
	{"int -2^31", intT, IntV(-2147483648), 4, "80000000"},
	{"int 16909060", intT, IntV(16909060), 4, "01020304"},
	{"bigint 5", Scalar(BigInt), IntV(5), 4, "0000000000000005"},
	{"bigint -1", Scalar(BigInt), IntV(-1), 4, "FFFFFFFFFFFFFFFF"},
	{"counter 2^63-1", Scalar(Counter), IntV(9223372036854775807), 4, "7FFFFFFFFFFFFFFF"},
	{"bigint 0x0102030405060708", Scalar(BigInt), IntV(0x0102030405060708), 4, "0102030405060708"},
	// float / double
	{"float 1.0", Scalar(Float), Bits32V(0x3F800000), 4, "3F800000"},
	{"double -2.5", Scalar(Double), Bits64V(0xC004000000000000), 4, "C004000000000000"},
	// boolean
	{"true", Scalar(Boolean), BoolV(true), 4, "01"},
	{"false", Scalar(Boolean), BoolV(false), 4, "00"},
	// strings, blob
	{"text", text, TextV("hé"), 4, "68C3A9"},
	{"ascii empty", Scalar(Ascii), TextV(""), 4, ""},
	{"blob", blob, BytesV([]byte{0, 255}), 4, "00FF"},
	// decimal: 1.23 = 123 * 10^-2 ; -1 * 10^1 ; 128e-(2^31-1)
	{"decimal 1.23", Scalar(Decimal), DecV(big.NewInt(123), 2), 4, "00000002 7B"},
	{"decimal -1e1", Scalar(Decimal), DecV(big.NewInt(-1), -1), 4, "FFFFFFFF FF"},
	{"decimal 128 scale max", Scalar(Decimal), DecV(big.NewInt(128), 2147483647), 4, "7FFFFFFF 0080"},
	{"decimal 0", Scalar(Decimal), DecV(big.NewInt(0), 0), 4, "00000000 00"},
	// 6.5 date: "0: -5877641-06-23, 2^31: 1970-1-1, 2^32: 5881580-07-11"
	{"date epoch", Scalar(Date), IntV(0), 4, "80000000"},
	{"date 1969-12-31", Scalar(Date), IntV(-1), 4, "7FFFFFFF"},
	{"date 1970-01-02", Scalar(Date), IntV(1), 4, "80000001"},
	{"date min", Scalar(Date), IntV(-2147483648), 4, "00000000"},
	{"date max", Scalar(Date), IntV(2147483647), 4, "FFFFFFFF"},
	{"date 2017-02-04", Scalar(Date), IntV(17201), 4, "80004331"},
	{"date 1582-10-15", Scalar(Date), IntV(-141427), 4, "7FFDD78D"},
	// time / timestamp
	{"time last ns", Scalar(Time), IntV(86399999999999), 4, "00004E94914EFFFF"},
	{"timestamp -1ms", Scalar(Timestamp), IntV(-1), 4, "FFFFFFFFFFFFFFFF"},
	{"timestamp 1000", Scalar(Timestamp), IntV(1000), 4, "00000000000003E8"},
	// duration: three zig-zag vints
	{"duration 1mo2d3ns", Scalar(Duration), DurV(1, 2, 3), 5, "02 04 06"},
	{"duration -1mo-2d-3ns", Scalar(Duration), DurV(-1, -2, -3), 5, "01 03 05"},
	{"duration 0", Scalar(Duration), DurV(0, 0, 0), 5, "00 00 00"},
	{"duration 1h10m10s", Scalar(Duration), DurV(0, 0, 4210000000000), 5, "00 00 FC07A86F1BE800"},
	{"duration 64ns", Scalar(Duration), DurV(0, 0, 64), 5, "00 00 8080"},
	{"duration extremes", Scalar(Duration), DurV(2147483647, -2147483648, -9223372036854775808), 5,
		"F0FFFFFFFE F0FFFFFFFF FFFFFFFFFFFFFFFFFF"},
	{"duration max ns", Scalar(Duration), DurV(0, 0, 9223372036854775807), 5, "00 00 FFFFFFFFFFFFFFFFFE"},
	// uuid, inet
	{"uuid", Scalar(UUID), UUIDV(hx("000102030405060708090A0B0C0D0E0F")), 4, "000102030405060708090A0B0C0D0E0F"},
	{"inet4", Scalar(Inet), InetV([]byte{127, 0, 0, 1}), 4, "7F000001"},
	{"inet6", Scalar(Inet), InetV(hx("00000000000000000000FFFF7F000001")), 4, "00000000000000000000FFFF7F000001"},
	// collections, protocol >= 3: [int] n, [bytes] elements
	{"list<int> v3", ListOf(intT), ListV(IntV(1), IntV(2)), 3, "00000002 00000004 00000001 00000004 00000002"},
	{"list<int> v2", ListOf(intT), ListV(IntV(1), IntV(2)), 2, "0002 0004 00000001 0004 00000002"},
	{"list<int> v1", ListOf(intT), ListV(IntV(1)), 1, "0001 0004 00000001"},
	{"list empty v4", ListOf(intT), ListV(), 4, "00000000"},
	{"list empty v2", ListOf(intT), ListV(), 2, "0000"},
	{"list null elem v3", ListOf(intT), ListV(Null()), 3, "00000001 FFFFFFFF"},
	{"list empty-string elem v3", ListOf(text), ListV(TextV("")), 3, "00000001 00000000"},
	{"set<text> v5", SetOf(text), ListV(TextV("a"), TextV("bc")), 5, "00000002 00000001 61 00000002 6263"},
	{"map<text,int> v3", MapOf(text, intT), MapV(TextV("a"), IntV(1)), 3, "00000001 00000001 61 00000004 00000001"},
	{"map<text,int> v2", MapOf(text, intT), MapV(TextV("a"), IntV(1)), 2, "0001 0001 61 0004 00000001"},
	{"map null value v4", MapOf(text, intT), MapV(TextV("a"), Null()), 4, "00000001 00000001 61 FFFFFFFF"},
	{"list<list<int>> v3", ListOf(ListOf(intT)), ListV(ListV(IntV(7))), 3, "00000001 0000000C 00000001 00000004 00000007"},
	{"list<list<int>> v2", ListOf(ListOf(intT)), ListV(ListV(IntV(7))), 2, "0001 0008 0001 0004 00000007"},
	// tuple / UDT: one [bytes] per component
	{"tuple", TupleOf(intT, text), TupleV(IntV(1), Null()), 3, "00000004 00000001 FFFFFFFF"},
	{"tuple with list", TupleOf(ListOf(intT)), TupleV(ListV()), 4, "00000004 00000000"},
	{"udt full", UDTOf([]string{"a", "b"}, intT, text), UDTV(IntV(1), TextV("x")), 3, "00000004 00000001 00000001 78"},
	{"udt null field", UDTOf([]string{"a", "b"}, intT, text), UDTV(Null(), TextV("x")), 3, "FFFFFFFF 00000001 78"},
	{"udt trailing absent", UDTOf([]string{"a", "b"}, intT, text), UDTV(IntV(1)), 3, "00000004 00000001"},
	{"udt nothing", UDTOf([]string{"a", "b"}, intT, text), UDTV(), 3, ""},
}

func TestVectors(t *testing.T) {
	for _, c := range vectors {
		want := hx(c.want)
		got, null := Encode(c.t, c.v, c.proto)
		if null || !bytes.Equal(got, want) {
			t.Errorf("%s: Encode = %x (null=%v), want %x", c.name, got, null, want)
			continue
		}
		if got == nil {
			t.Errorf("%s: non-null value encoded as nil slice", c.name)
		}
		back, err := Decode(c.t, want, c.proto)
		if err != nil {
			t.Errorf("%s: Decode(%x): %v", c.name, want, err)
			continue
		}
		if len(want) == 0 && c.t.ID != Text && c.t.ID != Ascii && c.t.ID != Varchar && c.t.ID != Blob {
			if back.K != KEmpty {
				t.Errorf("%s: zero-length decodes to %s", c.name, back)
			}
			continue
		}
		if !Equal(back, c.v) {
			t.Errorf("%s: Decode(%x) = %s, want %s", c.name, want, back, c.v)
		}
	}
}

func TestNull(t *testing.T) {
	for _, id := range Scalars {
		b, null := Encode(Scalar(id), Null(), 4)
		if !null || b != nil {
			t.Errorf("%s: null encodes to %x null=%v", id, b, null)
		}
		v, err := Decode(Scalar(id), nil, 4)
		if err != nil || v.K != KNull {
			t.Errorf("%s: nil decodes to %v, %v", id, v, err)
		}
	}
	if _, _, err := EncodeErr(ListOf(intT), ListV(Null()), 2); err == nil {
		t.Error("null element must not be expressible with protocol 2")
	}
}

func TestUVint(t *testing.T) {
	// unsigned vint: leading one bits of the first byte = number of following bytes
	cases := []struct {
		u    uint64
		want string
	}{
		{0, "00"}, {1, "01"}, {127, "7F"}, {128, "8080"}, {16383, "BFFF"}, {16384, "C04000"},
		{1<<21 - 1, "DFFFFF"}, {1 << 21, "E0200000"}, {1<<28 - 1, "EFFFFFFF"}, {1 << 28, "F010000000"},
		{1 << 35, "F80800000000"}, {1 << 42, "FC040000000000"}, {1 << 49, "FE02000000000000"},
		{1<<56 - 1, "FEFFFFFFFFFFFFFF"}, {1 << 56, "FF0100000000000000"}, {1<<64 - 1, "FFFFFFFFFFFFFFFFFF"},
	}
	for _, c := range cases {
		got := UVint(c.u)
		if !bytes.Equal(got, hx(c.want)) {
			t.Errorf("UVint(%d) = %x, want %s", c.u, got, c.want)
		}
		u, rest, err := ReadUVint(append(got, 0xAA))
		if err != nil || u != c.u || len(rest) != 1 {
			t.Errorf("ReadUVint(%x) = %d, rest %x, %v", got, u, rest, err)
		}
		// every wider form reads back as the same number
		for n := len(got) + 1; n <= 9; n++ {
			w := UVintN(c.u, n)
			if len(w) != n {
				t.Fatalf("UVintN(%d,%d) has %d bytes", c.u, n, len(w))
			}
			u, rest, err := ReadUVint(w)
			if err != nil || u != c.u || len(rest) != 0 {
				t.Errorf("ReadUVint(%x) = %d, %x, %v; want %d", w, u, rest, err, c.u)
			}
		}
	}
	// hand-made wide forms: 1 in two bytes is 10000000 00000001, in nine bytes FF + 8 bytes
	if u, _, err := ReadUVint(hx("8001")); err != nil || u != 1 {
		t.Errorf("8001 -> %d %v", u, err)
	}
	if u, _, err := ReadUVint(hx("FF0000000000000001")); err != nil || u != 1 {
		t.Errorf("FF..01 -> %d %v", u, err)
	}
	if _, _, err := ReadUVint(hx("C001")); err == nil {
		t.Error("truncated vint accepted")
	}
	zz := []struct {
		n int64
		u uint64
	}{{0, 0}, {-1, 1}, {1, 2}, {-2, 3}, {2147483647, 4294967294}, {-2147483648, 4294967295},
		{9223372036854775807, 18446744073709551614}, {-9223372036854775808, 18446744073709551615}}
	for _, c := range zz {
		if ZigZag(c.n) != c.u || UnZigZag(c.u) != c.n {
			t.Errorf("zigzag %d <-> %d: got %d, %d", c.n, c.u, ZigZag(c.n), UnZigZag(c.u))
		}
	}
}

func TestDecodeRejects(t *testing.T) {
	bad := []struct {
		name  string
		t     *Type
		b     string
		proto int
	}{
		{"non-minimal varint 0001", Scalar(Varint), "0001", 4},
		{"non-minimal varint FFFF", Scalar(Varint), "FFFF", 4},
		{"non-minimal varint FF80", Scalar(Varint), "FF80", 4},
		{"non-minimal decimal", Scalar(Decimal), "00000000 0000", 4},
		{"3 byte int", intT, "000001", 4},
		{"9 byte bigint", Scalar(BigInt), "000000000000000001", 4},
		{"1 byte bigint", Scalar(BigInt), "05", 4},
		{"5 byte inet", Scalar(Inet), "0102030405", 4},
		{"15 byte uuid", Scalar(UUID), "000102030405060708090A0B0C0D0E", 4},
		{"2 byte boolean", Scalar(Boolean), "0001", 4},
		{"duration 2 vints", Scalar(Duration), "0204", 5},
		{"duration trailing", Scalar(Duration), "02040600", 5},
		{"duration months > 32 bit", Scalar(Duration), "F900000000 00 00", 5},
		{"8 raw bytes as duration", Scalar(Duration), "0000000000000005", 5}, // 8 one-byte vints
		{"list count beyond data", ListOf(intT), "00000002 00000004 00000001", 3},
		{"list trailing", ListOf(intT), "00000000 00", 3},
		{"list negative count", ListOf(intT), "FFFFFFFF", 3},
		{"list short elem", ListOf(intT), "00000001 00000004 0000", 3},
		{"tuple missing component", TupleOf(intT, intT), "00000004 00000001", 3},
		{"ascii high", Scalar(Ascii), "C3A9", 4},
		{"text bad utf8", text, "FF", 4},
		{"list elem bad width", ListOf(intT), "00000001 00000001 05", 3},
	}
	for _, c := range bad {
		if v, err := Decode(c.t, hx(c.b), c.proto); err == nil {
			t.Errorf("%s: accepted as %s", c.name, v)
		}
	}
	// a big.Int bound to bigint written in minimal length is NOT a bigint
	if _, err := Decode(Scalar(BigInt), []byte{5}, 4); err == nil {
		t.Error("1 byte bigint accepted")
	}
}

func TestBooleanAnyNonZero(t *testing.T) {
	for _, b := range []byte{1, 2, 0x80, 0xFF} {
		v, err := Decode(Scalar(Boolean), []byte{b}, 4)
		if err != nil || !v.Bool {
			t.Errorf("boolean %#x -> %v %v", b, v, err)
		}
	}
}

func TestCanonAndNormalize(t *testing.T) {
	st := SetOf(intT)
	a, _ := Encode(st, ListV(IntV(2), IntV(1)), 3)
	b, _ := Encode(st, ListV(IntV(1), IntV(2)), 3)
	ca, err1 := Canon(st, a, 3)
	cb, err2 := Canon(st, b, 3)
	if err1 != nil || err2 != nil || !bytes.Equal(ca, cb) || !bytes.Equal(cb, b) {
		t.Errorf("Canon set: %x %x %v %v", ca, cb, err1, err2)
	}
	lt := ListOf(intT)
	if cl, _ := Canon(lt, a, 3); !bytes.Equal(cl, a) {
		t.Errorf("Canon must keep list order: %x", cl)
	}
	mt := MapOf(text, SetOf(intT))
	m1, _ := Encode(mt, MapV(TextV("b"), ListV(IntV(2), IntV(1)), TextV("a"), ListV()), 2)
	m2, _ := Encode(mt, MapV(TextV("a"), ListV(), TextV("b"), ListV(IntV(1), IntV(2))), 2)
	c1, err1 := Canon(mt, m1, 2)
	c2, err2 := Canon(mt, m2, 2)
	if err1 != nil || err2 != nil || !bytes.Equal(c1, c2) {
		t.Errorf("Canon map: %x %x %v %v", c1, c2, err1, err2)
	}
	if _, err := Canon(mt, m1[:len(m1)-1], 2); err == nil {
		t.Error("Canon accepted truncated map")
	}
	n1 := Normalize(mt, MapV(TextV("b"), ListV(IntV(2), IntV(1)), TextV("a"), ListV()))
	n2 := Normalize(mt, MapV(TextV("a"), ListV(), TextV("b"), ListV(IntV(1), IntV(2))))
	if !Equal(n1, n2) {
		t.Errorf("Normalize: %s vs %s", n1, n2)
	}
	ut := UDTOf([]string{"a", "b"}, intT, text)
	if !Equal(Normalize(ut, UDTV(IntV(1))), UDTV(IntV(1), Null())) {
		t.Error("Normalize must pad absent UDT fields with null")
	}
	// null survives canonicalisation
	nl, _ := Encode(SetOf(intT), ListV(IntV(1), Null()), 4)
	cn, err := Canon(SetOf(intT), nl, 4)
	if err != nil || len(cn) != len(nl) {
		t.Errorf("Canon with null: %x %v", cn, err)
	}
}

func TestAlternates(t *testing.T) {
	d := Scalar(Duration)
	alts := Alternates(d, DurV(1, -1, 64), 5)
	if len(alts) != 2 {
		t.Fatalf("want 2 alternates, got %d", len(alts))
	}
	if !bytes.Equal(alts[0], hx("8002 8001 C00080")) {
		t.Errorf("widened by one: %x", alts[0])
	}
	if !bytes.Equal(alts[1], hx("FF0000000000000002 FF0000000000000001 FF0000000000000080")) {
		t.Errorf("nine byte form: %x", alts[1])
	}
	for _, a := range alts {
		v, err := Decode(d, a, 5)
		if err != nil || !Equal(v, DurV(1, -1, 64)) {
			t.Errorf("alternate %x decodes to %v, %v", a, v, err)
		}
	}
	ut := UDTOf([]string{"a", "b", "c"}, intT, text, intT)
	ua := Alternates(ut, UDTV(IntV(1), Null(), Null()), 4)
	if len(ua) != 2 || !bytes.Equal(ua[0], hx("00000004 00000001 FFFFFFFF")) || !bytes.Equal(ua[1], hx("00000004 00000001")) {
		t.Errorf("udt alternates: %x", ua)
	}
	if got := Alternates(Scalar(Varint), IntV(1), 4); len(got) != 0 {
		t.Errorf("no alternates for varint, got %x", got)
	}
}

// Every value of a systematic grid round-trips through Encode/Decode under
// every protocol version (self-consistency of the reference).
func TestRoundTripGrid(t *testing.T) {
	ints := []*big.Int{}
	for _, s := range []string{"0", "1", "-1", "127", "128", "-128", "-129", "255", "256", "32767", "32768", "-32768", "-32769",
		"8388607", "8388608", "-8388608", "-8388609", "2147483647", "2147483648", "-2147483648", "-2147483649",
		"9223372036854775807", "9223372036854775808", "-9223372036854775808", "-9223372036854775809",
		"18446744073709551615", "2361183241434822606847", "2361183241434822606848", "-2361183241434822606848", "-2361183241434822606849"} {
		ints = append(ints, bigS(s))
	}
	vt := Scalar(Varint)
	for _, i := range ints {
		b, _ := Encode(vt, BigV(i), 4)
		if !varintIsMinimal(b) {
			t.Errorf("varint %s -> %x not minimal", i, b)
		}
		if got := readSigned(b); got.Cmp(i) != 0 {
			t.Errorf("varint %s -> %x -> %s", i, b, got)
		}
		// minimality: dropping the first byte must change the value (or be impossible)
		if len(b) > 1 && readSigned(b[1:]).Cmp(i) == 0 {
			t.Errorf("varint %s -> %x could be shorter", i, b)
		}
		for _, elemT := range []*Type{ListOf(vt), SetOf(vt), MapOf(vt, vt), TupleOf(vt, vt), UDTOf([]string{"x", "y"}, vt, vt)} {
			for proto := 1; proto <= 5; proto++ {
				var v Value
				switch elemT.ID {
				case List, Set:
					v = ListV(BigV(i), IntV(3))
				case Map:
					v = MapV(BigV(i), IntV(3))
				case Tuple:
					v = TupleV(BigV(i), Null())
				case UDT:
					v = UDTV(BigV(i), IntV(3))
				}
				eb, null, err := EncodeErr(elemT, v, proto)
				if err != nil || null {
					t.Fatalf("%s %s v%d: %v", elemT, v, proto, err)
				}
				back, err := Decode(elemT, eb, proto)
				if err != nil || !Equal(back, v) {
					t.Errorf("%s v%d: %s -> %x -> %s, %v", elemT, proto, v, eb, back, err)
				}
			}
		}
	}
	for _, n := range []int64{0, 1, -1, 63, 64, -64, -65, 8191, 8192, 1 << 20, 1<<31 - 1, -1 << 31, 1 << 40, 1<<62 - 1, 1 << 62, 1<<63 - 1, -1 << 63} {
		b := EncVint(n)
		u, rest, err := ReadUVint(b)
		if err != nil || len(rest) != 0 || UnZigZag(u) != n {
			t.Errorf("vint %d -> %x -> %d", n, b, UnZigZag(u))
		}
		if len(b) > 1 {
			// shortest: the value does not fit one byte less
			if ZigZag(n) < 1<<(7*uint(len(b)-1)) {
				t.Errorf("vint %d -> %x is not the shortest form", n, b)
			}
		}
	}
}
