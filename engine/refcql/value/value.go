// Package value is an independent reference codec for CQL value
// serialisation, written from the native-protocol specifications
// (native_protocol_v1..v5.spec, sections "Data Type Serialization Formats",
// "[bytes]", "[short bytes]", "[vint]") and from nothing else.  It shares no
// code and no structure with gocql's marshal.go.
//
// The codec works on an abstract value domain (type Value) and a CQL type
// tree (type Type).  Encode produces THE byte string the specification defines
// for a value (for sets and maps: with the entries in the order given), Decode
// accepts exactly the byte strings the specification allows and returns the
// abstract value.
//
// Summary of the formats implemented (spec section numbers are those of v4/v5):
//
//	ascii/text/varchar  the bytes of the string (6.1, 6.14)
//	blob                the bytes (6.3)
//	boolean             1 byte, 0 = false, anything else = true; written as 1 (6.4)
//	tinyint/smallint/int/bigint/counter  1/2/4/8 bytes two's complement, big-endian
//	float/double        4/8 bytes IEEE 754 binary32/binary64, big-endian
//	varint              two's complement, big-endian, the shortest such string (6.17)
//	decimal             [int] scale followed by the varint unscaled value (6.6)
//	date                4 bytes unsigned: days since the epoch + 2^31 (6.5)
//	time                8 bytes signed: nanoseconds since midnight (6.15)
//	timestamp           8 bytes signed: milliseconds since the epoch (6.16)
//	duration            three [vint]: months, days, nanoseconds (6.8, v5)
//	uuid/timeuuid       16 bytes (6.18)
//	inet                4 or 16 bytes (6.10)
//	list/set            n, then n elements; protocol <= 2: n is a [short] and each
//	                    element a [short bytes]; protocol >= 3: n is an [int] and
//	                    each element a [bytes] (negative length = null) (6.11, 6.13)
//	map                 n, then n (key, value) pairs framed like list elements (6.12)
//	tuple               one [bytes] per component (6.20)
//	UDT                 one [bytes] per field, trailing fields may be absent (6.19)
//
// [vint] (v5 section 3): an unsigned 64 bit integer is written with 1..9
// bytes; the number of leading 1 bits of the first byte is the number of
// bytes that follow; the remaining bits of the first byte followed by those
// bytes are the value, big-endian.  Signed values are zig-zag mapped first:
// (n << 1) ^ (n >> 63).
package value

import (
	"fmt"
	"math/big"
	"strings"
)

// TypeID is the protocol's option id of a CQL type.
type TypeID int

const (
	Custom    TypeID = 0x0000
	Ascii     TypeID = 0x0001
	BigInt    TypeID = 0x0002
	Blob      TypeID = 0x0003
	Boolean   TypeID = 0x0004
	Counter   TypeID = 0x0005
	Decimal   TypeID = 0x0006
	Double    TypeID = 0x0007
	Float     TypeID = 0x0008
	Int       TypeID = 0x0009
	Text      TypeID = 0x000A
	Timestamp TypeID = 0x000B
	UUID      TypeID = 0x000C
	Varchar   TypeID = 0x000D
	Varint    TypeID = 0x000E
	TimeUUID  TypeID = 0x000F
	Inet      TypeID = 0x0010
	Date      TypeID = 0x0011
	Time      TypeID = 0x0012
	SmallInt  TypeID = 0x0013
	TinyInt   TypeID = 0x0014
	Duration  TypeID = 0x0015
	List      TypeID = 0x0020
	Map       TypeID = 0x0021
	Set       TypeID = 0x0022
	UDT       TypeID = 0x0030
	Tuple     TypeID = 0x0031
)

// Scalars lists the 21 scalar CQL types.
var Scalars = []TypeID{Ascii, BigInt, Blob, Boolean, Counter, Decimal, Double, Float, Int, Text,
	Timestamp, UUID, Varchar, Varint, TimeUUID, Inet, Date, Time, SmallInt, TinyInt, Duration}

var typeNames = map[TypeID]string{Custom: "custom", Ascii: "ascii", BigInt: "bigint", Blob: "blob",
	Boolean: "boolean", Counter: "counter", Decimal: "decimal", Double: "double", Float: "float",
	Int: "int", Text: "text", Timestamp: "timestamp", UUID: "uuid", Varchar: "varchar",
	Varint: "varint", TimeUUID: "timeuuid", Inet: "inet", Date: "date", Time: "time",
	SmallInt: "smallint", TinyInt: "tinyint", Duration: "duration", List: "list", Map: "map",
	Set: "set", UDT: "udt", Tuple: "tuple"}

func (id TypeID) String() string {
	if s, ok := typeNames[id]; ok {
		return s
	}
	return fmt.Sprintf("type_%#x", int(id))
}

// Type is a CQL type tree.
//
//	list/set:  Elems = [element]
//	map:       Elems = [key, value]
//	tuple:     Elems = components
//	UDT:       Elems = field types, Names = field names
type Type struct {
	ID       TypeID
	Elems    []*Type
	Names    []string
	Keyspace string
	Name     string
}

func Scalar(id TypeID) *Type   { return &Type{ID: id} }
func ListOf(e *Type) *Type     { return &Type{ID: List, Elems: []*Type{e}} }
func SetOf(e *Type) *Type      { return &Type{ID: Set, Elems: []*Type{e}} }
func MapOf(k, v *Type) *Type   { return &Type{ID: Map, Elems: []*Type{k, v}} }
func TupleOf(e ...*Type) *Type { return &Type{ID: Tuple, Elems: e} }
func UDTOf(names []string, e ...*Type) *Type {
	if len(names) != len(e) {
		panic("value.UDTOf: names/types mismatch")
	}
	return &Type{ID: UDT, Elems: e, Names: names, Keyspace: "ks", Name: "udt"}
}

// IsCollection reports list, set or map.
func (t *Type) IsCollection() bool { return t.ID == List || t.ID == Set || t.ID == Map }

// Depth is 0 for scalars, 1 + max depth of the children otherwise.
func (t *Type) Depth() int {
	d := 0
	for _, e := range t.Elems {
		if x := e.Depth() + 1; x > d {
			d = x
		}
	}
	return d
}

func (t *Type) String() string {
	switch t.ID {
	case List, Set:
		return fmt.Sprintf("%s<%s>", t.ID, t.Elems[0])
	case Map:
		return fmt.Sprintf("map<%s,%s>", t.Elems[0], t.Elems[1])
	case Tuple:
		s := make([]string, len(t.Elems))
		for i, e := range t.Elems {
			s[i] = e.String()
		}
		return "tuple<" + strings.Join(s, ",") + ">"
	case UDT:
		s := make([]string, len(t.Elems))
		for i, e := range t.Elems {
			s[i] = t.Names[i] + ":" + e.String()
		}
		return "udt{" + strings.Join(s, ",") + "}"
	}
	return t.ID.String()
}

// Kind discriminates the abstract value domain.
type Kind int

const (
	KNull   Kind = iota // CQL null ([bytes] of negative length)
	KEmpty              // zero-length, non-null byte string for a type whose format has a fixed positive size ("empty" value)
	KInt                // mathematical integer: tinyint..bigint, counter, varint, time (ns), timestamp (ms), date (days since 1970-01-01, may be negative)
	KBits32             // float: the IEEE 754 bit pattern
	KBits64             // double: the IEEE 754 bit pattern
	KBytes              // blob
	KText               // ascii, text, varchar (the string's bytes)
	KBool               // boolean
	KDec                // decimal: Int * 10^-Scale
	KDur                // duration
	KUUID               // uuid, timeuuid: 16 bytes in B
	KInet               // inet: 4 or 16 bytes in B
	KList               // list or set: Elems
	KMap                // map: Keys[i] -> Elems[i], in the order given
	KTuple              // tuple: Elems
	KUDT                // UDT: Elems in field order; fewer Elems than fields = trailing fields absent
)

var kindNames = [...]string{"Null", "Empty", "Int", "Bits32", "Bits64", "Bytes", "Text", "Bool", "Dec", "Dur", "UUID", "Inet", "List", "Map", "Tuple", "UDT"}

func (k Kind) String() string {
	if int(k) < len(kindNames) {
		return kindNames[k]
	}
	return fmt.Sprintf("Kind(%d)", int(k))
}

// Value is one abstract CQL value.  Only the fields of its Kind are meaningful.
type Value struct {
	K      Kind
	I      *big.Int // KInt; KDec: unscaled value
	Scale  int32    // KDec
	U32    uint32   // KBits32
	U64    uint64   // KBits64
	B      []byte   // KBytes, KText, KUUID, KInet
	Bool   bool     // KBool
	Months int64    // KDur (must fit int32 to be encodable as a valid duration)
	Days   int64    // KDur (must fit int32)
	Nanos  int64    // KDur
	Elems  []Value  // KList, KTuple, KUDT; KMap: the values
	Keys   []Value  // KMap: the keys
}

func Null() Value            { return Value{K: KNull} }
func Empty() Value           { return Value{K: KEmpty} }
func IntV(i int64) Value     { return Value{K: KInt, I: big.NewInt(i)} }
func BigV(i *big.Int) Value  { return Value{K: KInt, I: new(big.Int).Set(i)} }
func Bits32V(u uint32) Value { return Value{K: KBits32, U32: u} }
func Bits64V(u uint64) Value { return Value{K: KBits64, U64: u} }
func BytesV(b []byte) Value  { return Value{K: KBytes, B: append([]byte{}, b...)} }
func TextV(s string) Value   { return Value{K: KText, B: []byte(s)} }
func BoolV(b bool) Value     { return Value{K: KBool, Bool: b} }
func DecV(unscaled *big.Int, scale int32) Value {
	return Value{K: KDec, I: new(big.Int).Set(unscaled), Scale: scale}
}
func DurV(months, days, nanos int64) Value {
	return Value{K: KDur, Months: months, Days: days, Nanos: nanos}
}
func UUIDV(b []byte) Value    { return Value{K: KUUID, B: append([]byte{}, b...)} }
func InetV(b []byte) Value    { return Value{K: KInet, B: append([]byte{}, b...)} }
func ListV(e ...Value) Value  { return Value{K: KList, Elems: append([]Value{}, e...)} }
func TupleV(e ...Value) Value { return Value{K: KTuple, Elems: append([]Value{}, e...)} }
func UDTV(e ...Value) Value   { return Value{K: KUDT, Elems: append([]Value{}, e...)} }
func MapV(kv ...Value) Value {
	if len(kv)%2 != 0 {
		panic("value.MapV: odd number of arguments")
	}
	m := Value{K: KMap, Keys: []Value{}, Elems: []Value{}}
	for i := 0; i < len(kv); i += 2 {
		m.Keys = append(m.Keys, kv[i])
		m.Elems = append(m.Elems, kv[i+1])
	}
	return m
}

func (v Value) IsNull() bool { return v.K == KNull }

// String renders a value for humans (used in samples, details and keys of sorted forms).
func (v Value) String() string {
	switch v.K {
	case KNull:
		return "null"
	case KEmpty:
		return "empty"
	case KInt:
		return v.I.String()
	case KBits32:
		return fmt.Sprintf("f32:%08x", v.U32)
	case KBits64:
		return fmt.Sprintf("f64:%016x", v.U64)
	case KBytes:
		return fmt.Sprintf("0x%x", v.B)
	case KText:
		return fmt.Sprintf("%q", string(v.B))
	case KBool:
		return fmt.Sprint(v.Bool)
	case KDec:
		return fmt.Sprintf("%se-%d", v.I, v.Scale)
	case KDur:
		return fmt.Sprintf("%dmo%dd%dns", v.Months, v.Days, v.Nanos)
	case KUUID:
		return fmt.Sprintf("uuid:%x", v.B)
	case KInet:
		return fmt.Sprintf("inet:%x", v.B)
	case KList, KTuple, KUDT:
		s := make([]string, len(v.Elems))
		for i, e := range v.Elems {
			s[i] = e.String()
		}
		open, cl := "[", "]"
		if v.K == KTuple {
			open, cl = "(", ")"
		} else if v.K == KUDT {
			open, cl = "{", "}"
		}
		return open + strings.Join(s, ",") + cl
	case KMap:
		s := make([]string, len(v.Elems))
		for i := range v.Elems {
			s[i] = v.Keys[i].String() + ":" + v.Elems[i].String()
		}
		return "map[" + strings.Join(s, ",") + "]"
	}
	return "?"
}

// Equal is structural equality of abstract values (lists, tuples, UDTs and
// map entries compared in order; use Normalize first to compare sets and maps
// as multisets and UDTs modulo absent trailing fields).
func Equal(a, b Value) bool {
	if a.K != b.K {
		return false
	}
	switch a.K {
	case KNull, KEmpty:
		return true
	case KInt:
		return a.I.Cmp(b.I) == 0
	case KBits32:
		return a.U32 == b.U32
	case KBits64:
		return a.U64 == b.U64
	case KBytes, KText, KUUID, KInet:
		return string(a.B) == string(b.B)
	case KBool:
		return a.Bool == b.Bool
	case KDec:
		return a.Scale == b.Scale && a.I.Cmp(b.I) == 0
	case KDur:
		return a.Months == b.Months && a.Days == b.Days && a.Nanos == b.Nanos
	case KList, KTuple, KUDT, KMap:
		if len(a.Elems) != len(b.Elems) || len(a.Keys) != len(b.Keys) {
			return false
		}
		for i := range a.Elems {
			if !Equal(a.Elems[i], b.Elems[i]) {
				return false
			}
		}
		for i := range a.Keys {
			if !Equal(a.Keys[i], b.Keys[i]) {
				return false
			}
		}
		return true
	}
	return false
}
