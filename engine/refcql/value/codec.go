package value

import (
	"bytes"
	"errors"
	"fmt"
	"math/big"
	"sort"
	"unicode/utf8"
)

// ---------------------------------------------------------------------------
// primitive notations

func putUint(dst []byte, u uint64, width int) []byte {
	for i := width - 1; i >= 0; i-- {
		dst = append(dst, byte(u>>(8*uint(i))))
	}
	return dst
}

func getUint(b []byte) uint64 {
	var u uint64
	for _, x := range b {
		u = u<<8 | uint64(x)
	}
	return u
}

var (
	one = big.NewInt(1)
)

// fixedSigned writes i as a width-byte two's complement big-endian integer.
func fixedSigned(i *big.Int, width int) ([]byte, error) {
	bitsW := uint(8 * width)
	lo := new(big.Int).Neg(new(big.Int).Lsh(one, bitsW-1)) // -2^(w-1)
	hi := new(big.Int).Lsh(one, bitsW-1)                   // 2^(w-1)
	if i.Cmp(lo) < 0 || i.Cmp(hi) >= 0 {
		return nil, fmt.Errorf("integer %s does not fit %d bytes", i, width)
	}
	x := new(big.Int).Set(i)
	if x.Sign() < 0 {
		x.Add(x, new(big.Int).Lsh(one, bitsW)) // 2^w + i
	}
	raw := x.Bytes()
	out := make([]byte, width)
	copy(out[width-len(raw):], raw)
	return out, nil
}

func readSigned(b []byte) *big.Int {
	x := new(big.Int).SetBytes(b)
	if len(b) > 0 && b[0] >= 0x80 {
		x.Sub(x, new(big.Int).Lsh(one, uint(8*len(b))))
	}
	return x
}

// EncVarint returns the shortest two's complement big-endian representation of i
// (spec 6.17: 0 -> 00, 127 -> 7F, 128 -> 0080, -1 -> FF, -128 -> 80, -129 -> FF7F).
func EncVarint(i *big.Int) []byte {
	if i.Sign() >= 0 {
		raw := i.Bytes()
		if len(raw) == 0 {
			return []byte{0}
		}
		if raw[0] >= 0x80 {
			return append([]byte{0}, raw...)
		}
		return raw
	}
	// i < 0: ~i = -i-1 >= 0 has b significant bits; n bytes suffice iff 8n-1 >= b.
	not := new(big.Int).Neg(i)
	not.Sub(not, one)
	n := not.BitLen()/8 + 1
	out, err := fixedSigned(i, n)
	if err != nil {
		panic(err)
	}
	return out
}

// varintIsMinimal reports whether b is the shortest representation of its value.
func varintIsMinimal(b []byte) bool {
	if len(b) < 2 {
		return len(b) == 1
	}
	if b[0] == 0x00 && b[1] < 0x80 {
		return false
	}
	if b[0] == 0xFF && b[1] >= 0x80 {
		return false
	}
	return true
}

// ZigZag maps a signed 64 bit integer to the unsigned one the [vint] notation stores.
func ZigZag(n int64) uint64 { return uint64(n<<1) ^ uint64(n>>63) }

// UnZigZag is the inverse of ZigZag.
func UnZigZag(u uint64) int64 { return int64(u>>1) ^ -int64(u&1) }

// vintMinLen is the least number of bytes the [unsigned vint] notation needs for u.
func vintMinLen(u uint64) int {
	for n := 1; n <= 8; n++ {
		if u < uint64(1)<<(7*uint(n)) {
			return n
		}
	}
	return 9
}

// UVintN writes u as an [unsigned vint] of exactly n bytes (n >= vintMinLen(u), n <= 9).
func UVintN(u uint64, n int) []byte {
	if n < vintMinLen(u) || n > 9 {
		panic(fmt.Sprintf("value.UVintN: %d does not fit %d bytes", u, n))
	}
	if n == 9 {
		return putUint([]byte{0xFF}, u, 8)
	}
	extra := n - 1
	prefix := byte(0xFF) << uint(8-extra) // `extra` leading one bits (0 for extra == 0)
	out := putUint(nil, u, n)
	out[0] |= prefix
	return out
}

// UVint writes u as the shortest [unsigned vint].
func UVint(u uint64) []byte { return UVintN(u, vintMinLen(u)) }

// EncVint writes n as a (signed) [vint].
func EncVint(n int64) []byte { return UVint(ZigZag(n)) }

// ReadUVint reads one [unsigned vint] from the front of b.
func ReadUVint(b []byte) (u uint64, rest []byte, err error) {
	if len(b) == 0 {
		return 0, nil, errors.New("vint: no bytes")
	}
	first := b[0]
	extra := 0
	for extra < 8 && first&(0x80>>uint(extra)) != 0 {
		extra++
	}
	if len(b) < 1+extra {
		return 0, nil, fmt.Errorf("vint: need %d bytes, have %d", 1+extra, len(b))
	}
	if extra < 8 {
		u = uint64(first & (0xFF >> uint(extra+1)))
	}
	for _, x := range b[1 : 1+extra] {
		u = u<<8 | uint64(x)
	}
	return u, b[1+extra:], nil
}

// ---------------------------------------------------------------------------
// Encode

func fixedWidth(id TypeID) int {
	switch id {
	case TinyInt:
		return 1
	case SmallInt:
		return 2
	case Int:
		return 4
	case BigInt, Counter, Time, Timestamp:
		return 8
	}
	return 0
}

// Encode returns the specification's serialisation of v as a value of type t
// under protocol version proto.  isNull reports a CQL null (then b is nil).
// It panics if v is not in the domain of t (a bug in the caller); use
// EncodeErr to get the reason as an error instead.
func Encode(t *Type, v Value, proto int) (b []byte, isNull bool) {
	b, isNull, err := EncodeErr(t, v, proto)
	if err != nil {
		panic(fmt.Sprintf("value.Encode(%s, %s, v%d): %v", t, v, proto, err))
	}
	return b, isNull
}

// EncodeErr is Encode returning an error for values outside the type's domain
// or not expressible in the protocol version (null element with protocol <= 2,
// more than 65535 elements with protocol <= 2, ...).
func EncodeErr(t *Type, v Value, proto int) (b []byte, isNull bool, err error) {
	if v.K == KNull {
		return nil, true, nil
	}
	if v.K == KEmpty {
		return []byte{}, false, nil
	}
	b, err = encodeNonNull(t, v, proto)
	if err != nil {
		return nil, false, err
	}
	if b == nil {
		b = []byte{}
	}
	return b, false, nil
}

func wrongKind(t *Type, v Value) error {
	return fmt.Errorf("a %s value is not in the domain of %s", v.K, t)
}

func encodeNonNull(t *Type, v Value, proto int) ([]byte, error) {
	switch t.ID {
	case Ascii, Text, Varchar, Blob:
		if v.K != KText && v.K != KBytes {
			return nil, wrongKind(t, v)
		}
		return append([]byte{}, v.B...), nil
	case Boolean:
		if v.K != KBool {
			return nil, wrongKind(t, v)
		}
		if v.Bool {
			return []byte{1}, nil
		}
		return []byte{0}, nil
	case TinyInt, SmallInt, Int, BigInt, Counter, Time, Timestamp:
		if v.K != KInt {
			return nil, wrongKind(t, v)
		}
		return fixedSigned(v.I, fixedWidth(t.ID))
	case Date:
		if v.K != KInt {
			return nil, wrongKind(t, v)
		}
		// days since the epoch, centred on 2^31
		u := new(big.Int).Add(v.I, new(big.Int).Lsh(one, 31))
		if u.Sign() < 0 || u.BitLen() > 32 {
			return nil, fmt.Errorf("date %s days is outside the 32 bit range", v.I)
		}
		return putUint(nil, u.Uint64(), 4), nil
	case Float:
		if v.K != KBits32 {
			return nil, wrongKind(t, v)
		}
		return putUint(nil, uint64(v.U32), 4), nil
	case Double:
		if v.K != KBits64 {
			return nil, wrongKind(t, v)
		}
		return putUint(nil, v.U64, 8), nil
	case Varint:
		if v.K != KInt {
			return nil, wrongKind(t, v)
		}
		return EncVarint(v.I), nil
	case Decimal:
		if v.K != KDec {
			return nil, wrongKind(t, v)
		}
		out := putUint(nil, uint64(uint32(v.Scale)), 4)
		return append(out, EncVarint(v.I)...), nil
	case Duration:
		if v.K != KDur {
			return nil, wrongKind(t, v)
		}
		if v.Months != int64(int32(v.Months)) || v.Days != int64(int32(v.Days)) {
			return nil, fmt.Errorf("duration months/days must fit 32 bits")
		}
		out := EncVint(v.Months)
		out = append(out, EncVint(v.Days)...)
		return append(out, EncVint(v.Nanos)...), nil
	case UUID, TimeUUID:
		if v.K != KUUID || len(v.B) != 16 {
			return nil, wrongKind(t, v)
		}
		return append([]byte{}, v.B...), nil
	case Inet:
		if v.K != KInet || (len(v.B) != 4 && len(v.B) != 16) {
			return nil, wrongKind(t, v)
		}
		return append([]byte{}, v.B...), nil
	case List, Set:
		if v.K != KList {
			return nil, wrongKind(t, v)
		}
		out, err := putCount(nil, len(v.Elems), proto)
		if err != nil {
			return nil, err
		}
		for _, e := range v.Elems {
			if out, err = putElem(out, t.Elems[0], e, proto); err != nil {
				return nil, err
			}
		}
		return out, nil
	case Map:
		if v.K != KMap || len(v.Keys) != len(v.Elems) {
			return nil, wrongKind(t, v)
		}
		out, err := putCount(nil, len(v.Elems), proto)
		if err != nil {
			return nil, err
		}
		for i := range v.Elems {
			if out, err = putElem(out, t.Elems[0], v.Keys[i], proto); err != nil {
				return nil, err
			}
			if out, err = putElem(out, t.Elems[1], v.Elems[i], proto); err != nil {
				return nil, err
			}
		}
		return out, nil
	case Tuple, UDT:
		if (t.ID == Tuple && v.K != KTuple) || (t.ID == UDT && v.K != KUDT) {
			return nil, wrongKind(t, v)
		}
		if len(v.Elems) > len(t.Elems) || (t.ID == Tuple && len(v.Elems) != len(t.Elems)) {
			return nil, fmt.Errorf("%d components for %s", len(v.Elems), t)
		}
		out := []byte{}
		for i, e := range v.Elems {
			eb, null, err := EncodeErr(t.Elems[i], e, proto)
			if err != nil {
				return nil, err
			}
			out = putBytes(out, eb, null)
		}
		return out, nil
	}
	return nil, fmt.Errorf("no serialisation defined for %s", t)
}

// putBytes appends a [bytes]: [int] n followed by n bytes, n = -1 for null.
func putBytes(dst, b []byte, null bool) []byte {
	if null {
		return append(dst, 0xFF, 0xFF, 0xFF, 0xFF)
	}
	dst = putUint(dst, uint64(uint32(len(b))), 4)
	return append(dst, b...)
}

// putCount appends a collection size: [short] for protocol <= 2, [int] otherwise.
func putCount(dst []byte, n int, proto int) ([]byte, error) {
	if proto <= 2 {
		if n > 0xFFFF {
			return nil, fmt.Errorf("%d does not fit a [short]", n)
		}
		return putUint(dst, uint64(n), 2), nil
	}
	if n > 0x7FFFFFFF {
		return nil, fmt.Errorf("%d does not fit an [int]", n)
	}
	return putUint(dst, uint64(n), 4), nil
}

// putElem appends one collection element: [short bytes] (protocol <= 2) or [bytes].
func putElem(dst []byte, t *Type, v Value, proto int) ([]byte, error) {
	eb, null, err := EncodeErr(t, v, proto)
	if err != nil {
		return nil, err
	}
	if proto <= 2 {
		if null {
			return nil, errors.New("a null collection element is not expressible with protocol <= 2 ([short bytes] has no null)")
		}
		if len(eb) > 0xFFFF {
			return nil, fmt.Errorf("element of %d bytes does not fit [short bytes]", len(eb))
		}
		dst = putUint(dst, uint64(len(eb)), 2)
		return append(dst, eb...), nil
	}
	return putBytes(dst, eb, null), nil
}

// ---------------------------------------------------------------------------
// framing reader (shared by Decode, Split, Canon)

// Part is one framed component of a collection, tuple or UDT value.
type Part struct {
	B    []byte // nil iff Null
	Null bool
}

func takeCount(b []byte, proto int) (n int, rest []byte, err error) {
	w := 4
	if proto <= 2 {
		w = 2
	}
	if len(b) < w {
		return 0, nil, fmt.Errorf("collection size: need %d bytes, have %d", w, len(b))
	}
	u := getUint(b[:w])
	if w == 4 {
		n = int(int32(uint32(u)))
		if n < 0 {
			return 0, nil, fmt.Errorf("negative collection size %d", n)
		}
	} else {
		n = int(u)
	}
	return n, b[w:], nil
}

func takeElem(b []byte, proto int) (p Part, rest []byte, err error) {
	if proto <= 2 {
		if len(b) < 2 {
			return p, nil, fmt.Errorf("[short bytes] length: need 2 bytes, have %d", len(b))
		}
		n := int(getUint(b[:2]))
		if len(b) < 2+n {
			return p, nil, fmt.Errorf("[short bytes] of %d bytes, have %d", n, len(b)-2)
		}
		return Part{B: b[2 : 2+n : 2+n]}, b[2+n:], nil
	}
	return takeBytes(b)
}

func takeBytes(b []byte) (p Part, rest []byte, err error) {
	if len(b) < 4 {
		return p, nil, fmt.Errorf("[bytes] length: need 4 bytes, have %d", len(b))
	}
	n := int(int32(uint32(getUint(b[:4]))))
	if n < 0 {
		return Part{Null: true}, b[4:], nil
	}
	if len(b) < 4+n {
		return p, nil, fmt.Errorf("[bytes] of %d bytes, have %d", n, len(b)-4)
	}
	return Part{B: b[4 : 4+n : 4+n]}, b[4+n:], nil
}

// Split cuts the serialisation b of a list, set, map (parts alternate key,
// value), tuple or UDT value into its framed components.  For a UDT fewer
// parts than fields are returned if trailing fields are absent.
func Split(t *Type, b []byte, proto int) ([]Part, error) {
	var parts []Part
	switch t.ID {
	case List, Set, Map:
		n, rest, err := takeCount(b, proto)
		if err != nil {
			return nil, err
		}
		if t.ID == Map {
			n *= 2
		}
		w := 4
		if proto <= 2 {
			w = 2
		}
		if int64(n)*int64(w) > int64(len(rest)) { // every element carries at least its length field
			return nil, fmt.Errorf("collection size %d exceeds the %d bytes that follow", n, len(rest))
		}
		for i := 0; i < n; i++ {
			var p Part
			if p, rest, err = takeElem(rest, proto); err != nil {
				return nil, fmt.Errorf("element %d: %v", i, err)
			}
			parts = append(parts, p)
		}
		if len(rest) != 0 {
			return nil, fmt.Errorf("%d trailing bytes after %d elements", len(rest), n)
		}
		return parts, nil
	case Tuple, UDT:
		rest := b
		for i := 0; i < len(t.Elems); i++ {
			if len(rest) == 0 && t.ID == UDT {
				break // trailing fields absent
			}
			var p Part
			var err error
			if p, rest, err = takeBytes(rest); err != nil {
				return nil, fmt.Errorf("component %d: %v", i, err)
			}
			parts = append(parts, p)
		}
		if len(rest) != 0 {
			return nil, fmt.Errorf("%d trailing bytes after %d components", len(rest), len(parts))
		}
		if t.ID == Tuple && len(parts) != len(t.Elems) {
			return nil, fmt.Errorf("tuple with %d of %d components", len(parts), len(t.Elems))
		}
		return parts, nil
	}
	return nil, fmt.Errorf("%s has no components", t)
}

// ---------------------------------------------------------------------------
// Decode

// Decode reads the serialisation b of a value of type t.  A nil b denotes CQL
// null.  A zero-length non-nil b decodes to Text("")/Bytes() for the string
// and blob types and to Empty for every other type.  Encodings the
// specification does not allow (wrong fixed width, non-minimal varint,
// inet of other than 4/16 bytes, duration components out of range or with
// trailing bytes, malformed framing, invalid UTF-8/ASCII) are errors.
func Decode(t *Type, b []byte, proto int) (Value, error) {
	if b == nil {
		return Null(), nil
	}
	switch t.ID {
	case Ascii:
		for _, c := range b {
			if c > 127 {
				return Value{}, fmt.Errorf("ascii: byte %#x", c)
			}
		}
		return Value{K: KText, B: append([]byte{}, b...)}, nil
	case Text, Varchar:
		if !utf8.Valid(b) {
			return Value{}, errors.New("text: invalid UTF-8")
		}
		return Value{K: KText, B: append([]byte{}, b...)}, nil
	case Blob:
		return BytesV(b), nil
	}
	if len(b) == 0 {
		return Empty(), nil
	}
	switch t.ID {
	case Boolean:
		if len(b) != 1 {
			return Value{}, fmt.Errorf("boolean of %d bytes", len(b))
		}
		return BoolV(b[0] != 0), nil
	case TinyInt, SmallInt, Int, BigInt, Counter, Time, Timestamp:
		if w := fixedWidth(t.ID); len(b) != w {
			return Value{}, fmt.Errorf("%s of %d bytes, want %d", t, len(b), w)
		}
		return Value{K: KInt, I: readSigned(b)}, nil
	case Date:
		if len(b) != 4 {
			return Value{}, fmt.Errorf("date of %d bytes, want 4", len(b))
		}
		return IntV(int64(getUint(b)) - (1 << 31)), nil
	case Float:
		if len(b) != 4 {
			return Value{}, fmt.Errorf("float of %d bytes", len(b))
		}
		return Bits32V(uint32(getUint(b))), nil
	case Double:
		if len(b) != 8 {
			return Value{}, fmt.Errorf("double of %d bytes", len(b))
		}
		return Bits64V(getUint(b)), nil
	case Varint:
		if !varintIsMinimal(b) {
			return Value{}, fmt.Errorf("varint %x is not of minimal length", b)
		}
		return Value{K: KInt, I: readSigned(b)}, nil
	case Decimal:
		if len(b) < 5 {
			return Value{}, fmt.Errorf("decimal of %d bytes, need at least 5", len(b))
		}
		if !varintIsMinimal(b[4:]) {
			return Value{}, fmt.Errorf("decimal: unscaled varint %x is not of minimal length", b[4:])
		}
		return Value{K: KDec, Scale: int32(uint32(getUint(b[:4]))), I: readSigned(b[4:])}, nil
	case Duration:
		var u [3]uint64
		rest := b
		var err error
		for i := range u {
			if u[i], rest, err = ReadUVint(rest); err != nil {
				return Value{}, fmt.Errorf("duration component %d: %v", i, err)
			}
		}
		if len(rest) != 0 {
			return Value{}, fmt.Errorf("duration: %d trailing bytes", len(rest))
		}
		m, d, n := UnZigZag(u[0]), UnZigZag(u[1]), UnZigZag(u[2])
		if m != int64(int32(m)) || d != int64(int32(d)) {
			return Value{}, errors.New("duration: months/days exceed 32 bits")
		}
		return DurV(m, d, n), nil
	case UUID, TimeUUID:
		if len(b) != 16 {
			return Value{}, fmt.Errorf("uuid of %d bytes", len(b))
		}
		return UUIDV(b), nil
	case Inet:
		if len(b) != 4 && len(b) != 16 {
			return Value{}, fmt.Errorf("inet of %d bytes", len(b))
		}
		return InetV(b), nil
	case List, Set, Map, Tuple, UDT:
		parts, err := Split(t, b, proto)
		if err != nil {
			return Value{}, fmt.Errorf("%s: %v", t, err)
		}
		vals := make([]Value, len(parts))
		for i, p := range parts {
			et := t.Elems[0]
			switch t.ID {
			case Map:
				et = t.Elems[i%2]
			case Tuple, UDT:
				et = t.Elems[i]
			}
			if p.Null {
				if proto <= 2 && t.IsCollection() {
					return Value{}, errors.New("null element with protocol <= 2")
				}
				vals[i] = Null()
				continue
			}
			pb := p.B
			if pb == nil {
				pb = []byte{}
			}
			if vals[i], err = Decode(et, pb, proto); err != nil {
				return Value{}, fmt.Errorf("%s[%d]: %v", t.ID, i, err)
			}
		}
		switch t.ID {
		case List, Set:
			return Value{K: KList, Elems: vals}, nil
		case Tuple:
			return Value{K: KTuple, Elems: vals}, nil
		case UDT:
			return Value{K: KUDT, Elems: vals}, nil
		}
		m := Value{K: KMap, Keys: []Value{}, Elems: []Value{}}
		for i := 0; i < len(vals); i += 2 {
			m.Keys = append(m.Keys, vals[i])
			m.Elems = append(m.Elems, vals[i+1])
		}
		return m, nil
	}
	return Value{}, fmt.Errorf("no serialisation defined for %s", t)
}

// ---------------------------------------------------------------------------
// order-insensitive comparison of sets and maps

// Canon re-serialises b with the elements of every set and the entries of
// every map (at any depth) sorted bytewise, so that two serialisations of the
// same multiset of entries become identical.  Scalars are copied unchanged.
// UDT values keep the number of fields they have.  It fails on malformed
// framing.
func Canon(t *Type, b []byte, proto int) ([]byte, error) {
	if b == nil || len(t.Elems) == 0 || len(b) == 0 {
		return b, nil
	}
	parts, err := Split(t, b, proto)
	if err != nil {
		return nil, err
	}
	for i := range parts {
		et := t.Elems[0]
		switch t.ID {
		case Map:
			et = t.Elems[i%2]
		case Tuple, UDT:
			et = t.Elems[i]
		}
		if parts[i].Null {
			continue
		}
		if parts[i].B, err = Canon(et, parts[i].B, proto); err != nil {
			return nil, err
		}
	}
	frame := func(dst []byte, p Part) []byte {
		if t.IsCollection() && proto <= 2 {
			dst = putUint(dst, uint64(len(p.B)), 2)
			return append(dst, p.B...)
		}
		return putBytes(dst, p.B, p.Null)
	}
	var out []byte
	switch t.ID {
	case Set:
		items := make([][]byte, len(parts))
		for i, p := range parts {
			items[i] = frame(nil, p)
		}
		sort.Slice(items, func(i, j int) bool { return bytes.Compare(items[i], items[j]) < 0 })
		out, _ = putCount(nil, len(parts), proto)
		for _, it := range items {
			out = append(out, it...)
		}
	case Map:
		items := make([][]byte, 0, len(parts)/2)
		for i := 0; i+1 < len(parts); i += 2 {
			items = append(items, frame(frame(nil, parts[i]), parts[i+1]))
		}
		sort.Slice(items, func(i, j int) bool { return bytes.Compare(items[i], items[j]) < 0 })
		out, _ = putCount(nil, len(parts)/2, proto)
		for _, it := range items {
			out = append(out, it...)
		}
	case List:
		out, _ = putCount(nil, len(parts), proto)
		for _, p := range parts {
			out = frame(out, p)
		}
	default: // tuple, UDT
		out = []byte{}
		for _, p := range parts {
			out = frame(out, p)
		}
	}
	return out, nil
}

// Normalize returns v with the elements of sets and the entries of maps sorted
// by their serialisation (protocol 4 framing) and with absent trailing UDT
// fields made explicit nulls, so that Equal compares sets/maps as multisets.
func Normalize(t *Type, v Value) Value {
	switch {
	case (t.ID == List || t.ID == Set) && v.K == KList:
		out := Value{K: KList, Elems: make([]Value, len(v.Elems))}
		for i, e := range v.Elems {
			out.Elems[i] = Normalize(t.Elems[0], e)
		}
		if t.ID == Set {
			keys := sortKeys(t.Elems[0], out.Elems)
			idx := make([]int, len(keys))
			for i := range idx {
				idx[i] = i
			}
			sort.SliceStable(idx, func(i, j int) bool { return keys[idx[i]] < keys[idx[j]] })
			sorted := make([]Value, len(idx))
			for i, k := range idx {
				sorted[i] = out.Elems[k]
			}
			out.Elems = sorted
		}
		return out
	case t.ID == Map && v.K == KMap:
		out := Value{K: KMap, Keys: make([]Value, len(v.Keys)), Elems: make([]Value, len(v.Elems))}
		type ent struct {
			k, v Value
			key  string
		}
		ents := make([]ent, len(v.Keys))
		for i := range v.Keys {
			k, e := Normalize(t.Elems[0], v.Keys[i]), Normalize(t.Elems[1], v.Elems[i])
			kb, _, _ := EncodeErr(t.Elems[0], k, 4)
			eb, en, _ := EncodeErr(t.Elems[1], e, 4)
			ents[i] = ent{k, e, string(putBytes(putBytes(nil, kb, k.IsNull()), eb, en))}
		}
		sort.SliceStable(ents, func(i, j int) bool { return ents[i].key < ents[j].key })
		for i, e := range ents {
			out.Keys[i], out.Elems[i] = e.k, e.v
		}
		return out
	case (t.ID == Tuple && v.K == KTuple) || (t.ID == UDT && v.K == KUDT):
		out := Value{K: v.K, Elems: make([]Value, 0, len(t.Elems))}
		for i, e := range v.Elems {
			if i < len(t.Elems) {
				out.Elems = append(out.Elems, Normalize(t.Elems[i], e))
			}
		}
		for t.ID == UDT && len(out.Elems) < len(t.Elems) {
			out.Elems = append(out.Elems, Null())
		}
		return out
	}
	return v
}

func sortKeys(t *Type, vs []Value) []string {
	keys := make([]string, len(vs))
	for i, e := range vs {
		b, null, _ := EncodeErr(t, e, 4)
		keys[i] = string(putBytes(nil, b, null))
	}
	return keys
}

// ---------------------------------------------------------------------------
// alternative conformant encodings

// Alternates returns serialisations of v, other than Encode's, that the
// specification also allows a peer to send for the same value:
//
//	boolean true   any non-zero byte (02, 80, FF)
//	duration       each [vint] written with more bytes than necessary
//	               (one more, and the 9 byte form): the notation fixes how
//	               a vint is read, not that the writer uses the shortest
//	UDT            trailing null fields left out
//
// Non-minimal varints are deliberately not produced (6.17 asks for the
// shortest form).  The result is empty for every other type.
func Alternates(t *Type, v Value, proto int) [][]byte {
	var out [][]byte
	switch {
	case t.ID == Boolean && v.K == KBool && v.Bool:
		out = append(out, []byte{0x02}, []byte{0x80}, []byte{0xFF})
	case t.ID == Duration && v.K == KDur:
		us := [3]uint64{ZigZag(v.Months), ZigZag(v.Days), ZigZag(v.Nanos)}
		for _, widen := range []int{1, 9} {
			var b []byte
			changed := false
			for _, u := range us {
				n := vintMinLen(u)
				m := n + 1
				if widen == 9 {
					m = 9
				}
				if m > 9 {
					m = 9
				}
				if m != n {
					changed = true
				}
				b = append(b, UVintN(u, m)...)
			}
			if changed {
				out = append(out, b)
			}
		}
	case t.ID == UDT && v.K == KUDT:
		n := len(v.Elems)
		for n > 0 && v.Elems[n-1].IsNull() {
			n--
			short := Value{K: KUDT, Elems: v.Elems[:n]}
			if b, _, err := EncodeErr(t, short, proto); err == nil {
				out = append(out, b)
			}
		}
	}
	return out
}
