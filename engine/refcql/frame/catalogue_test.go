package frame

import (
	"bytes"
	"os"
	"testing"
)

// Every catalogue entry encodes, decodes back, and re-encodes to the same bytes;
// spans point at fields holding the recorded counts.
func TestCatalogueRoundTrip(t *testing.T) {
	for _, thorough := range []bool{false, true} {
		if thorough && os.Getenv("VERIF_FRAME_THOROUGH") == "" {
			continue // minutes; the C04 harness runs the thorough catalogue through Encode anyway
		}
		for v := 1; v <= 5; v++ {
			n, classes := 0, map[string]bool{}
			Catalogue(v, CatalogueOptions{Thorough: thorough}, func(e *Entry) {
				n++
				classes[e.Class] = true
				for _, r := range []*Response{e.Resp, e.Companion} {
					if r == nil {
						continue
					}
					enc, err := Encode(r)
					if err != nil {
						t.Fatalf("v%d %s: %v", v, e.Class, err)
					}
					raw := enc.Bytes()
					back, err := DecodeResponse(raw)
					if err != nil {
						t.Fatalf("v%d %s: decode: %v\n%x", v, e.Class, err, raw)
					}
					enc2, err := Encode(back)
					if err != nil || !bytes.Equal(enc2.Bytes(), raw) {
						t.Fatalf("v%d %s: re-encode differs (%v)", v, e.Class, err)
					}
					for _, s := range enc.FrameSpans() {
						if s.Off < 0 || s.Off+s.Len > len(raw) {
							t.Fatalf("v%d %s: span %+v outside frame of %d bytes", v, e.Class, s, len(raw))
						}
					}
				}
			})
			t.Logf("thorough=%v v%d: %d entries, %d classes", thorough, v, n, len(classes))
		}
	}
}
