// Package frame is an independent reference implementation of the CQL native
// protocol framing layer, versions 1 to 5, written from the protocol
// specifications (native_protocol_v1.spec .. native_protocol_v5.spec). It shares
// no code with gocql.
//
// It contains
//
//   - the frame header codec (8-byte header with a 1-byte signed stream id in
//     v1/v2, 9-byte header with a 2-byte signed stream id from v3 on),
//   - every notation of section 3 of the specifications,
//   - server-side decoders for the requests a client can send,
//   - server-side encoders (and, for self-checking, decoders) for every
//     response, which also record the byte span of every length/count field
//     they write,
//   - a catalogue of well-formed responses (catalogue.go).
//
// Compression is deliberately outside this package: bodies are always the
// uncompressed bodies; callers compress/decompress and set/clear header flag
// 0x01 themselves.
//
// "v5 as implemented": version 5 here is the dialect the driver under test
// speaks - the legacy (v4 style) envelope, header flag 0x10 (USE_BETA), [int]
// query flags in QUERY/EXECUTE/BATCH, the with-keyspace flag 0x80 followed by a
// keyspace [string], PREPARE with [int] flags and optional keyspace, ERROR
// Read_failure/Write_failure with a reason map, the CAS contentions field of
// Write_timeout; there is NO result_metadata_id (neither in EXECUTE nor in
// RESULT Prepared), no now_in_seconds, no metadata_changed flag and no v5
// segment framing.
package frame

import (
	"errors"
	"fmt"
)

// Span is the location of a length or count field inside an encoded body (or,
// after Encoded.Bytes, inside the whole frame).
type Span struct {
	Off  int    // offset of the first byte of the field
	Len  int    // width of the field in bytes: 1, 2 or 4
	Kind string // what the field counts, e.g. "string.len", "rows.count"
}

// Span kinds written by this package.
const (
	SpanHeaderLength    = "header.length"
	SpanStringLen       = "string.len"
	SpanLongStringLen   = "longstring.len"
	SpanBytesLen        = "bytes.len"
	SpanShortBytesLen   = "shortbytes.len"
	SpanStringListCount = "stringlist.count"
	SpanStringMapCount  = "stringmap.count"
	SpanMultimapCount   = "multimap.count"
	SpanBytesMapCount   = "bytesmap.count"
	SpanInetSize        = "inet.size"
	SpanColumnsCount    = "columns.count"
	SpanRowsCount       = "rows.count"
	SpanPKCount         = "pk.count"
	SpanTupleCount      = "tuple.count"
	SpanUDTCount        = "udt.count"
	SpanReasonMapCount  = "reasonmap.count"
	SpanCellLen         = "cell.len"
	SpanNumFailures     = "numfailures"
)

// W is an append-only body writer that records spans.
type W struct {
	B     []byte
	Spans []Span
}

func (w *W) span(n int, kind string) { w.Spans = append(w.Spans, Span{len(w.B), n, kind}) }

func (w *W) Byte(b byte) { w.B = append(w.B, b) }

func (w *W) Short(v uint16) { w.B = append(w.B, byte(v>>8), byte(v)) }

func (w *W) Int(v int32) {
	u := uint32(v)
	w.B = append(w.B, byte(u>>24), byte(u>>16), byte(u>>8), byte(u))
}

func (w *W) Long(v int64) {
	u := uint64(v)
	for s := 56; s >= 0; s -= 8 {
		w.B = append(w.B, byte(u>>uint(s)))
	}
}

func (w *W) Raw(p []byte) { w.B = append(w.B, p...) }

func (w *W) String(s string) {
	if len(s) > 0xffff {
		panic("frame: [string] longer than 65535 bytes")
	}
	w.span(2, SpanStringLen)
	w.Short(uint16(len(s)))
	w.B = append(w.B, s...)
}

func (w *W) LongString(s string) {
	w.span(4, SpanLongStringLen)
	w.Int(int32(len(s)))
	w.B = append(w.B, s...)
}

// Bytes writes a [bytes]; nil is the null value (length -1).
func (w *W) Bytes(p []byte) { w.bytesKind(p, SpanBytesLen) }

func (w *W) bytesKind(p []byte, kind string) {
	w.span(4, kind)
	if p == nil {
		w.Int(-1)
		return
	}
	w.Int(int32(len(p)))
	w.B = append(w.B, p...)
}

func (w *W) ShortBytes(p []byte) {
	if len(p) > 0xffff {
		panic("frame: [short bytes] longer than 65535 bytes")
	}
	w.span(2, SpanShortBytesLen)
	w.Short(uint16(len(p)))
	w.B = append(w.B, p...)
}

func (w *W) UUID(u [16]byte) { w.B = append(w.B, u[:]...) }

func (w *W) StringList(l []string) {
	w.span(2, SpanStringListCount)
	w.Short(uint16(len(l)))
	for _, s := range l {
		w.String(s)
	}
}

// KV is one entry of a [string map]; a slice keeps the wire order.
type KV struct{ Key, Value string }

// KL is one entry of a [string multimap].
type KL struct {
	Key    string
	Values []string
}

// KB is one entry of a [bytes map]; a nil Value is the null [bytes].
type KB struct {
	Key   string
	Value []byte
}

func (w *W) StringMap(m []KV) {
	w.span(2, SpanStringMapCount)
	w.Short(uint16(len(m)))
	for _, e := range m {
		w.String(e.Key)
		w.String(e.Value)
	}
}

func (w *W) StringMultimap(m []KL) {
	w.span(2, SpanMultimapCount)
	w.Short(uint16(len(m)))
	for _, e := range m {
		w.String(e.Key)
		w.StringList(e.Values)
	}
}

func (w *W) BytesMap(m []KB) {
	w.span(2, SpanBytesMapCount)
	w.Short(uint16(len(m)))
	for _, e := range m {
		w.String(e.Key)
		w.Bytes(e.Value)
	}
}

// InetAddr writes an [inetaddr]: one size byte (4 or 16) and the address.
func (w *W) InetAddr(addr []byte) {
	if len(addr) != 4 && len(addr) != 16 {
		panic("frame: inet address must have 4 or 16 bytes")
	}
	w.span(1, SpanInetSize)
	w.Byte(byte(len(addr)))
	w.B = append(w.B, addr...)
}

// Inet writes an [inet]: an [inetaddr] followed by an [int] port.
func (w *W) Inet(addr []byte, port int32) {
	w.InetAddr(addr)
	w.Int(port)
}

func (w *W) Consistency(c uint16) { w.Short(c) }

// ---------------------------------------------------------------------------

// ErrShort is returned (wrapped) when a body ends before a field is complete.
var ErrShort = errors.New("frame: body too short")

// R is a cursor over a body.
type R struct {
	B   []byte
	Pos int
}

func (r *R) Remaining() int { return len(r.B) - r.Pos }

func (r *R) need(n int, what string) error {
	if n < 0 || r.Remaining() < n {
		return fmt.Errorf("%w: need %d bytes for %s at offset %d, have %d", ErrShort, n, what, r.Pos, r.Remaining())
	}
	return nil
}

func (r *R) Byte() (byte, error) {
	if err := r.need(1, "[byte]"); err != nil {
		return 0, err
	}
	b := r.B[r.Pos]
	r.Pos++
	return b, nil
}

func (r *R) Short() (uint16, error) {
	if err := r.need(2, "[short]"); err != nil {
		return 0, err
	}
	v := uint16(r.B[r.Pos])<<8 | uint16(r.B[r.Pos+1])
	r.Pos += 2
	return v, nil
}

func (r *R) Int() (int32, error) {
	if err := r.need(4, "[int]"); err != nil {
		return 0, err
	}
	p := r.B[r.Pos:]
	v := uint32(p[0])<<24 | uint32(p[1])<<16 | uint32(p[2])<<8 | uint32(p[3])
	r.Pos += 4
	return int32(v), nil
}

func (r *R) Long() (int64, error) {
	if err := r.need(8, "[long]"); err != nil {
		return 0, err
	}
	var v uint64
	for i := 0; i < 8; i++ {
		v = v<<8 | uint64(r.B[r.Pos+i])
	}
	r.Pos += 8
	return int64(v), nil
}

func (r *R) take(n int, what string) ([]byte, error) {
	if err := r.need(n, what); err != nil {
		return nil, err
	}
	p := r.B[r.Pos : r.Pos+n : r.Pos+n]
	r.Pos += n
	return p, nil
}

func (r *R) String() (string, error) {
	n, err := r.Short()
	if err != nil {
		return "", err
	}
	p, err := r.take(int(n), "[string] content")
	return string(p), err
}

func (r *R) LongString() (string, error) {
	n, err := r.Int()
	if err != nil {
		return "", err
	}
	if n < 0 {
		return "", fmt.Errorf("frame: negative [long string] length %d at offset %d", n, r.Pos-4)
	}
	p, err := r.take(int(n), "[long string] content")
	return string(p), err
}

// Bytes reads a [bytes]: any negative length is the null value (nil).
// A non-null value is returned as a non-nil slice (possibly empty).
func (r *R) Bytes() ([]byte, error) {
	n, err := r.Int()
	if err != nil {
		return nil, err
	}
	if n < 0 {
		return nil, nil
	}
	p, err := r.take(int(n), "[bytes] content")
	if err != nil {
		return nil, err
	}
	if p == nil || len(p) == 0 {
		p = []byte{}
	}
	return p, nil
}

func (r *R) ShortBytes() ([]byte, error) {
	n, err := r.Short()
	if err != nil {
		return nil, err
	}
	p, err := r.take(int(n), "[short bytes] content")
	if err != nil {
		return nil, err
	}
	if len(p) == 0 {
		p = []byte{}
	}
	return p, nil
}

func (r *R) UUID() (u [16]byte, err error) {
	p, err := r.take(16, "[uuid]")
	if err != nil {
		return u, err
	}
	copy(u[:], p)
	return u, nil
}

func (r *R) StringList() ([]string, error) {
	n, err := r.Short()
	if err != nil {
		return nil, err
	}
	l := make([]string, 0, minInt(int(n), 1024))
	for i := 0; i < int(n); i++ {
		s, err := r.String()
		if err != nil {
			return nil, err
		}
		l = append(l, s)
	}
	return l, nil
}

func (r *R) StringMap() ([]KV, error) {
	n, err := r.Short()
	if err != nil {
		return nil, err
	}
	m := make([]KV, 0, minInt(int(n), 1024))
	for i := 0; i < int(n); i++ {
		k, err := r.String()
		if err != nil {
			return nil, err
		}
		v, err := r.String()
		if err != nil {
			return nil, err
		}
		m = append(m, KV{k, v})
	}
	return m, nil
}

func (r *R) StringMultimap() ([]KL, error) {
	n, err := r.Short()
	if err != nil {
		return nil, err
	}
	m := make([]KL, 0, minInt(int(n), 1024))
	for i := 0; i < int(n); i++ {
		k, err := r.String()
		if err != nil {
			return nil, err
		}
		v, err := r.StringList()
		if err != nil {
			return nil, err
		}
		m = append(m, KL{k, v})
	}
	return m, nil
}

func (r *R) BytesMap() ([]KB, error) {
	n, err := r.Short()
	if err != nil {
		return nil, err
	}
	m := make([]KB, 0, minInt(int(n), 1024))
	for i := 0; i < int(n); i++ {
		k, err := r.String()
		if err != nil {
			return nil, err
		}
		v, err := r.Bytes()
		if err != nil {
			return nil, err
		}
		m = append(m, KB{k, v})
	}
	return m, nil
}

func (r *R) InetAddr() ([]byte, error) {
	n, err := r.Byte()
	if err != nil {
		return nil, err
	}
	if n != 4 && n != 16 {
		return nil, fmt.Errorf("frame: inet address size %d (must be 4 or 16) at offset %d", n, r.Pos-1)
	}
	return r.take(int(n), "[inet] address")
}

func (r *R) Inet() ([]byte, int32, error) {
	a, err := r.InetAddr()
	if err != nil {
		return nil, 0, err
	}
	p, err := r.Int()
	return a, p, err
}

// End fails unless the whole body was consumed.
func (r *R) End() error {
	if r.Remaining() != 0 {
		return fmt.Errorf("frame: %d trailing bytes after the message body (offset %d of %d)", r.Remaining(), r.Pos, len(r.B))
	}
	return nil
}

func minInt(a, b int) int {
	if a < b {
		return a
	}
	return b
}

// Consistency levels of the [consistency] notation.
const (
	Any         uint16 = 0x0000
	One         uint16 = 0x0001
	Two         uint16 = 0x0002
	Three       uint16 = 0x0003
	Quorum      uint16 = 0x0004
	All         uint16 = 0x0005
	LocalQuorum uint16 = 0x0006
	EachQuorum  uint16 = 0x0007
	Serial      uint16 = 0x0008
	LocalSerial uint16 = 0x0009
	LocalOne    uint16 = 0x000A
)

// ValidConsistency reports whether c is one of the eleven defined levels.
func ValidConsistency(c uint16) bool { return c <= 0x000A }
