package frame

import "fmt"

// ValueKind distinguishes the three states of a bound value ([value], v4; in
// v1-v3 a bound value is a [bytes] and only normal/null exist).
type ValueKind int

const (
	ValNormal ValueKind = iota
	ValNull
	ValUnset
)

func (k ValueKind) String() string { return [...]string{"normal", "null", "unset"}[k] }

// Value is one bound value of QUERY / EXECUTE / BATCH.
type Value struct {
	Name  string // only meaningful when the enclosing Named flag is set
	Kind  ValueKind
	Bytes []byte // ValNormal: the content (non-nil, possibly empty); otherwise nil
}

// Query flags (section 4.1.4 <query_parameters>, 4.1.7 BATCH).
const (
	QFValues            uint32 = 0x01
	QFSkipMetadata      uint32 = 0x02
	QFPageSize          uint32 = 0x04
	QFPagingState       uint32 = 0x08
	QFSerialConsistency uint32 = 0x10
	QFTimestamp         uint32 = 0x20 // v3+
	QFNames             uint32 = 0x40 // v3+
	QFKeyspace          uint32 = 0x80 // v5
)

// QueryFlagsDefined returns the mask of <query_parameters> flags a version defines.
func QueryFlagsDefined(version int) uint32 {
	switch {
	case version <= 1:
		return 0
	case version == 2:
		return 0x1f
	case version <= 4:
		return 0x7f
	}
	return 0xff
}

// BatchFlagsDefined returns the mask of BATCH flags a version defines.
func BatchFlagsDefined(version int) uint32 {
	switch {
	case version <= 2:
		return 0
	case version <= 4:
		return QFSerialConsistency | QFTimestamp | QFNames
	}
	return QFSerialConsistency | QFTimestamp | QFNames | QFKeyspace
}

// QueryParams is the decoded <query_parameters> block (v2+), or, for v1, the
// consistency and (EXECUTE only) the values.
type QueryParams struct {
	Consistency       uint16
	Flags             uint32 // as on the wire; 0 in v1 where there are no flags
	Named             bool   // flag 0x40: every value carries a name
	Values            []Value
	SkipMetadata      bool
	PageSize          *int32
	HasPagingState    bool
	PagingState       []byte
	SerialConsistency *uint16
	Timestamp         *int64
	Keyspace          *string
}

type Startup struct{ Options []KV }
type Credentials struct{ Credentials []KV }
type Options struct{}
type AuthResponse struct{ Token []byte } // nil = null [bytes]
type Register struct{ Events []string }
type Query struct {
	Statement string
	Params    QueryParams
}
type Prepare struct {
	Statement string
	HasFlags  bool // v5
	Flags     uint32
	Keyspace  *string
}
type Execute struct {
	ID     []byte
	Params QueryParams
}
type BatchEntry struct {
	Prepared  bool
	Statement string // !Prepared
	ID        []byte // Prepared
	Values    []Value
}
type Batch struct {
	Type              byte // 0 logged, 1 unlogged, 2 counter
	Entries           []BatchEntry
	Consistency       uint16
	HasFlags          bool // v3+
	Flags             uint32
	SerialConsistency *uint16
	Timestamp         *int64
	Keyspace          *string
}

// Request is a decoded client request.
type Request struct {
	Header           Header
	Tracing          bool
	HasCustomPayload bool
	CustomPayload    []KB
	Msg              interface{} // *Startup, *Credentials, *Options, *AuthResponse, *Register, *Query, *Prepare, *Execute, *Batch
}

// DecodeRequest decodes one complete, uncompressed request frame.
func DecodeRequest(frame []byte) (*Request, error) {
	h, body, err := SplitFrame(frame)
	if err != nil {
		return nil, err
	}
	if h.Flags&FlagCompression != 0 {
		return nil, fmt.Errorf("frame: DecodeRequest needs an uncompressed frame; use SplitFrame + DecodeRequestBody")
	}
	return DecodeRequestBody(h, body)
}

// DecodeRequestBody decodes the body of a request whose header is h. body must
// be the uncompressed body (h.Length is not consulted; h.Flags may still carry
// the compression bit, which only tells that the caller decompressed it).
// Every structural rule of the specification is enforced: defined opcode,
// flags and consistency for the version, no missing and no trailing bytes.
func DecodeRequestBody(h Header, body []byte) (*Request, error) {
	v := h.Version
	if v < 1 || v > 5 {
		return nil, fmt.Errorf("frame: unsupported protocol version %d", v)
	}
	if h.Response {
		return nil, fmt.Errorf("frame: direction bit set on a request (version byte 0x%02x)", 0x80|v)
	}
	if !OpDefined(v, h.Op) {
		return nil, fmt.Errorf("frame: opcode 0x%02x (%s) is not defined in protocol v%d", h.Op, OpName(h.Op), v)
	}
	if !OpIsRequest(h.Op) {
		return nil, fmt.Errorf("frame: opcode %s is not a request", OpName(h.Op))
	}
	if bad := h.Flags &^ ValidHeaderFlags(v, false); bad != 0 {
		return nil, fmt.Errorf("frame: header flags 0x%02x not defined for a v%d request", bad, v)
	}
	if v >= 5 && h.Flags&FlagBeta == 0 {
		return nil, fmt.Errorf("frame: v5 (beta) request without the USE_BETA header flag")
	}
	if h.Op == OpStartup && h.Flags&FlagCompression != 0 {
		return nil, fmt.Errorf("frame: STARTUP must not be compressed")
	}
	lo, hi := StreamRange(v)
	if h.Stream < lo || h.Stream > hi {
		return nil, fmt.Errorf("frame: stream %d out of range for v%d", h.Stream, v)
	}
	req := &Request{Header: h, Tracing: h.Flags&FlagTracing != 0}
	r := &R{B: body}
	var err error
	if h.Flags&FlagCustomPayload != 0 {
		req.HasCustomPayload = true
		if req.CustomPayload, err = r.BytesMap(); err != nil {
			return nil, fmt.Errorf("custom payload: %w", err)
		}
		if err := uniqueKeysKB(req.CustomPayload); err != nil {
			return nil, fmt.Errorf("custom payload: %w", err)
		}
	}
	switch h.Op {
	case OpStartup:
		m := &Startup{}
		if m.Options, err = r.StringMap(); err != nil {
			return nil, err
		}
		if err := uniqueKeysKV(m.Options); err != nil {
			return nil, fmt.Errorf("STARTUP options: %w", err)
		}
		if _, ok := lookupKV(m.Options, "CQL_VERSION"); !ok {
			return nil, fmt.Errorf("frame: STARTUP without the mandatory CQL_VERSION option")
		}
		req.Msg = m
	case OpCredentials:
		m := &Credentials{}
		if m.Credentials, err = r.StringMap(); err != nil {
			return nil, err
		}
		req.Msg = m
	case OpOptions:
		req.Msg = &Options{}
	case OpAuthResponse:
		m := &AuthResponse{}
		if m.Token, err = r.Bytes(); err != nil {
			return nil, err
		}
		req.Msg = m
	case OpRegister:
		m := &Register{}
		if m.Events, err = r.StringList(); err != nil {
			return nil, err
		}
		req.Msg = m
	case OpQuery:
		m := &Query{}
		if m.Statement, err = r.LongString(); err != nil {
			return nil, err
		}
		if v == 1 {
			if m.Params.Consistency, err = readConsistency(r); err != nil {
				return nil, err
			}
		} else if err = readQueryParams(r, v, &m.Params); err != nil {
			return nil, err
		}
		req.Msg = m
	case OpPrepare:
		m := &Prepare{}
		if m.Statement, err = r.LongString(); err != nil {
			return nil, err
		}
		if v >= 5 {
			m.HasFlags = true
			f, err := r.Int()
			if err != nil {
				return nil, fmt.Errorf("PREPARE flags: %w", err)
			}
			m.Flags = uint32(f)
			if m.Flags&^0x01 != 0 {
				return nil, fmt.Errorf("frame: PREPARE flags 0x%x not defined", m.Flags&^0x01)
			}
			if m.Flags&0x01 != 0 {
				ks, err := r.String()
				if err != nil {
					return nil, fmt.Errorf("PREPARE keyspace: %w", err)
				}
				m.Keyspace = &ks
			}
		}
		req.Msg = m
	case OpExecute:
		m := &Execute{}
		if m.ID, err = r.ShortBytes(); err != nil {
			return nil, err
		}
		if v == 1 {
			n, err := r.Short()
			if err != nil {
				return nil, err
			}
			if m.Params.Values, err = readValues(r, v, int(n), false); err != nil {
				return nil, err
			}
			if m.Params.Consistency, err = readConsistency(r); err != nil {
				return nil, err
			}
		} else if err = readQueryParams(r, v, &m.Params); err != nil {
			return nil, err
		}
		req.Msg = m
	case OpBatch:
		m := &Batch{}
		if err = readBatch(r, v, m); err != nil {
			return nil, err
		}
		req.Msg = m
	default:
		return nil, fmt.Errorf("frame: no decoder for opcode %s", OpName(h.Op))
	}
	if err := r.End(); err != nil {
		return nil, err
	}
	return req, nil
}

func readConsistency(r *R) (uint16, error) {
	c, err := r.Short()
	if err != nil {
		return 0, fmt.Errorf("consistency: %w", err)
	}
	if !ValidConsistency(c) {
		return 0, fmt.Errorf("frame: undefined consistency level 0x%04x", c)
	}
	return c, nil
}

// readValues reads n bound values, each optionally preceded by a [string] name.
func readValues(r *R, version, n int, named bool) ([]Value, error) {
	vals := make([]Value, 0, minInt(n, 4096))
	for i := 0; i < n; i++ {
		var val Value
		var err error
		if named {
			if val.Name, err = r.String(); err != nil {
				return nil, fmt.Errorf("value %d name: %w", i, err)
			}
		}
		l, err := r.Int()
		if err != nil {
			return nil, fmt.Errorf("value %d length: %w", i, err)
		}
		switch {
		case l >= 0:
			p, err := r.take(int(l), "value content")
			if err != nil {
				return nil, fmt.Errorf("value %d: %w", i, err)
			}
			val.Kind = ValNormal
			val.Bytes = append([]byte{}, p...)
		case version < 4:
			// [bytes]: any negative length is null, nothing follows
			val.Kind = ValNull
		case l == -1:
			val.Kind = ValNull
		case l == -2:
			val.Kind = ValUnset
		default:
			return nil, fmt.Errorf("frame: value %d has length %d (< -2 is invalid in v%d)", i, l, version)
		}
		vals = append(vals, val)
	}
	return vals, nil
}

// readQueryParams: <consistency><flags>[<n>[name_1]<value_1>...][<result_page_size>]
// [<paging_state>][<serial_consistency>][<timestamp>][<keyspace>], v2+.
// flags is a [byte] in v2-v4 and an [int] in v5.
func readQueryParams(r *R, version int, p *QueryParams) error {
	var err error
	if p.Consistency, err = readConsistency(r); err != nil {
		return err
	}
	if version >= 5 {
		f, err := r.Int()
		if err != nil {
			return fmt.Errorf("query flags: %w", err)
		}
		p.Flags = uint32(f)
	} else {
		f, err := r.Byte()
		if err != nil {
			return fmt.Errorf("query flags: %w", err)
		}
		p.Flags = uint32(f)
	}
	if bad := p.Flags &^ QueryFlagsDefined(version); bad != 0 {
		return fmt.Errorf("frame: query flags 0x%x not defined in v%d", bad, version)
	}
	if p.Flags&QFNames != 0 && p.Flags&QFValues == 0 {
		return fmt.Errorf("frame: with-names flag without the values flag")
	}
	if p.Flags&QFValues != 0 {
		n, err := r.Short()
		if err != nil {
			return fmt.Errorf("values count: %w", err)
		}
		p.Named = p.Flags&QFNames != 0
		if p.Values, err = readValues(r, version, int(n), p.Named); err != nil {
			return err
		}
	}
	p.SkipMetadata = p.Flags&QFSkipMetadata != 0
	if p.Flags&QFPageSize != 0 {
		n, err := r.Int()
		if err != nil {
			return fmt.Errorf("page size: %w", err)
		}
		p.PageSize = &n
	}
	if p.Flags&QFPagingState != 0 {
		p.HasPagingState = true
		if p.PagingState, err = r.Bytes(); err != nil {
			return fmt.Errorf("paging state: %w", err)
		}
	}
	if p.Flags&QFSerialConsistency != 0 {
		c, err := readSerial(r)
		if err != nil {
			return err
		}
		p.SerialConsistency = &c
	}
	if p.Flags&QFTimestamp != 0 {
		t, err := r.Long()
		if err != nil {
			return fmt.Errorf("timestamp: %w", err)
		}
		p.Timestamp = &t
	}
	if p.Flags&QFKeyspace != 0 {
		ks, err := r.String()
		if err != nil {
			return fmt.Errorf("keyspace: %w", err)
		}
		p.Keyspace = &ks
	}
	return nil
}

func readSerial(r *R) (uint16, error) {
	c, err := r.Short()
	if err != nil {
		return 0, fmt.Errorf("serial consistency: %w", err)
	}
	if c != Serial && c != LocalSerial {
		return 0, fmt.Errorf("frame: serial consistency 0x%04x is neither SERIAL nor LOCAL_SERIAL", c)
	}
	return c, nil
}

// readBatch: <type><n><query_1>...<query_n><consistency>            (v2)
//
//	...<consistency><flags>[<serial_consistency>][<timestamp>][<keyspace>]  (v3+; flags [byte], v5 [int])
//
// query_i = <kind:byte><string_or_id><n:short><value_1>...<value_n>
func readBatch(r *R, version int, m *Batch) error {
	var err error
	if m.Type, err = r.Byte(); err != nil {
		return err
	}
	if m.Type > 2 {
		return fmt.Errorf("frame: batch type %d is not 0 (logged), 1 (unlogged) or 2 (counter)", m.Type)
	}
	n, err := r.Short()
	if err != nil {
		return err
	}
	m.Entries = make([]BatchEntry, 0, minInt(int(n), 4096))
	for i := 0; i < int(n); i++ {
		var e BatchEntry
		kind, err := r.Byte()
		if err != nil {
			return fmt.Errorf("batch entry %d kind: %w", i, err)
		}
		switch kind {
		case 0:
			if e.Statement, err = r.LongString(); err != nil {
				return fmt.Errorf("batch entry %d: %w", i, err)
			}
		case 1:
			e.Prepared = true
			if e.ID, err = r.ShortBytes(); err != nil {
				return fmt.Errorf("batch entry %d: %w", i, err)
			}
		default:
			return fmt.Errorf("frame: batch entry %d has kind %d (must be 0 or 1)", i, kind)
		}
		nv, err := r.Short()
		if err != nil {
			return fmt.Errorf("batch entry %d value count: %w", i, err)
		}
		// Names cannot be decoded here: the flag saying whether they are present comes
		// after the queries (CASSANDRA-10246), so a well-formed BATCH never has them.
		if e.Values, err = readValues(r, version, int(nv), false); err != nil {
			return fmt.Errorf("batch entry %d: %w", i, err)
		}
		m.Entries = append(m.Entries, e)
	}
	if m.Consistency, err = readConsistency(r); err != nil {
		return err
	}
	if version < 3 {
		return nil
	}
	m.HasFlags = true
	if version >= 5 {
		f, err := r.Int()
		if err != nil {
			return fmt.Errorf("batch flags: %w", err)
		}
		m.Flags = uint32(f)
	} else {
		f, err := r.Byte()
		if err != nil {
			return fmt.Errorf("batch flags: %w", err)
		}
		m.Flags = uint32(f)
	}
	if bad := m.Flags &^ BatchFlagsDefined(version); bad != 0 {
		return fmt.Errorf("frame: batch flags 0x%x not defined in v%d", bad, version)
	}
	if m.Flags&QFNames != 0 {
		return fmt.Errorf("frame: BATCH with the with-names flag cannot be decoded (CASSANDRA-10246)")
	}
	if m.Flags&QFSerialConsistency != 0 {
		c, err := readSerial(r)
		if err != nil {
			return err
		}
		m.SerialConsistency = &c
	}
	if m.Flags&QFTimestamp != 0 {
		t, err := r.Long()
		if err != nil {
			return fmt.Errorf("timestamp: %w", err)
		}
		m.Timestamp = &t
	}
	if m.Flags&QFKeyspace != 0 {
		ks, err := r.String()
		if err != nil {
			return fmt.Errorf("keyspace: %w", err)
		}
		m.Keyspace = &ks
	}
	return nil
}

func lookupKV(m []KV, k string) (string, bool) {
	for _, e := range m {
		if e.Key == k {
			return e.Value, true
		}
	}
	return "", false
}

func uniqueKeysKV(m []KV) error {
	seen := map[string]bool{}
	for _, e := range m {
		if seen[e.Key] {
			return fmt.Errorf("frame: duplicate map key %q", e.Key)
		}
		seen[e.Key] = true
	}
	return nil
}

func uniqueKeysKB(m []KB) error {
	seen := map[string]bool{}
	for _, e := range m {
		if seen[e.Key] {
			return fmt.Errorf("frame: duplicate map key %q", e.Key)
		}
		seen[e.Key] = true
	}
	return nil
}
