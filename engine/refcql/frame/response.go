package frame

import (
	"fmt"
)

// Response is the abstract description of a server response: what the server
// "said". Encode turns it into bytes; the description is the oracle input.
type Response struct {
	Version int
	Stream  int       // -1 for EVENT
	TraceID *[16]byte // non-nil: tracing flag 0x02, the [uuid] is the first thing in the body
	// Warnings non-nil (even empty): warning flag 0x08 (v4+), a [string list]
	// after the trace id.
	Warnings []string
	// Payload non-nil (even empty): custom payload flag 0x04 (v4+), a [bytes map]
	// after trace id and warnings.
	Payload []KB
	Msg     interface{} // one of the message types below (by value or pointer)
}

type Ready struct{}
type Authenticate struct{ Class string }
type AuthChallenge struct{ Token []byte } // nil = null [bytes]
type AuthSuccess struct{ Token []byte }   // nil = null [bytes]
type Supported struct{ Options []KL }

// Error codes (section 9 of the v4/v5 specifications).
const (
	ErrServer          int32 = 0x0000
	ErrProtocol        int32 = 0x000A
	ErrBadCredentials  int32 = 0x0100
	ErrUnavailable     int32 = 0x1000
	ErrOverloaded      int32 = 0x1001
	ErrBootstrapping   int32 = 0x1002
	ErrTruncate        int32 = 0x1003
	ErrWriteTimeout    int32 = 0x1100
	ErrReadTimeout     int32 = 0x1200
	ErrReadFailure     int32 = 0x1300 // v4+
	ErrFunctionFailure int32 = 0x1400 // v4+
	ErrWriteFailure    int32 = 0x1500 // v4+
	ErrCDCWriteFailure int32 = 0x1600 // v5
	ErrCASWriteUnknown int32 = 0x1700 // v5
	ErrSyntax          int32 = 0x2000
	ErrUnauthorized    int32 = 0x2100
	ErrInvalid         int32 = 0x2200
	ErrConfig          int32 = 0x2300
	ErrAlreadyExists   int32 = 0x2400
	ErrUnprepared      int32 = 0x2500
)

// ErrorCodes lists every error code a version defines.
func ErrorCodes(version int) []int32 {
	c := []int32{ErrServer, ErrProtocol, ErrBadCredentials, ErrUnavailable, ErrOverloaded, ErrBootstrapping, ErrTruncate,
		ErrWriteTimeout, ErrReadTimeout}
	if version >= 4 {
		c = append(c, ErrReadFailure, ErrFunctionFailure, ErrWriteFailure)
	}
	if version >= 5 {
		c = append(c, ErrCDCWriteFailure, ErrCASWriteUnknown)
	}
	return append(c, ErrSyntax, ErrUnauthorized, ErrInvalid, ErrConfig, ErrAlreadyExists, ErrUnprepared)
}

func ErrorCodeDefined(version int, code int32) bool {
	for _, c := range ErrorCodes(version) {
		if c == code {
			return true
		}
	}
	return false
}

// Reason is one entry of the v5 <reasonmap> of Read_failure / Write_failure.
type Reason struct {
	Addr []byte // 4 or 16 bytes ([inetaddr])
	Code uint16
}

// Error describes an ERROR message. Only the fields of the given Code are
// encoded:
//
//	Unavailable      <cl><required:int><alive:int>
//	Write_timeout    <cl><received:int><blockfor:int><writeType:string>[<contentions:short>]   (contentions: v5, writeType "CAS")
//	Read_timeout     <cl><received:int><blockfor:int><data_present:byte>
//	Read_failure     <cl><received:int><blockfor:int><numfailures:int | reasonmap><data_present:byte>
//	Function_failure <keyspace:string><function:string><arg_types:string list>
//	Write_failure    <cl><received:int><blockfor:int><numfailures:int | reasonmap><writeType:string>
//	CAS_write_unknown <cl><received:int><blockfor:int>
//	Already_exists   <ks:string><table:string>
//	Unprepared       <id:short bytes>
//
// <reasonmap> (v5) = <n:int> n*(<endpoint:inetaddr><failurecode:short>); v4 writes <numfailures:int>.
type Error struct {
	Code    int32
	Message string

	Consistency uint16
	Required    int32 // Unavailable
	Alive       int32 // Unavailable
	Received    int32
	BlockFor    int32
	WriteType   string
	Contentions *uint16 // Write_timeout, v5, WriteType == "CAS"
	DataPresent byte
	NumFailures int32    // v4 Read_failure / Write_failure
	ReasonMap   []Reason // v5 Read_failure / Write_failure
	Keyspace    string   // Already_exists, Function_failure
	Table       string   // Already_exists
	Function    string
	ArgTypes    []string
	StatementID []byte // Unprepared
}

// ColumnSpec is one <col_spec>. Keyspace and Table are always the effective
// values; with a global table spec they must equal the global ones.
type ColumnSpec struct {
	Keyspace, Table, Name string
	Type                  *Type
}

// RowsMetadata is the <metadata> of a Rows result (and the <result_metadata>
// of a Prepared result):
//
//	<flags:int><columns_count:int>[<paging_state:bytes>][<global_table_spec>?<col_spec_1>...<col_spec_n>]
//
// flags: 0x0001 global_tables_spec, 0x0002 has_more_pages, 0x0004 no_metadata
// (v1 defines only 0x0001).
type RowsMetadata struct {
	GlobalTableSpec bool
	HasMorePages    bool
	NoMetadata      bool
	PagingState     []byte // written iff HasMorePages
	GlobalKeyspace  string
	GlobalTable     string
	// ColumnCount is the <columns_count> written. With NoMetadata the column
	// specs are omitted but the count still tells how many cells a row has.
	ColumnCount int32
	Columns     []ColumnSpec // len == ColumnCount unless NoMetadata
}

func (m *RowsMetadata) flags() int32 {
	var f int32
	if m.GlobalTableSpec {
		f |= 1
	}
	if m.HasMorePages {
		f |= 2
	}
	if m.NoMetadata {
		f |= 4
	}
	return f
}

// PreparedMetadata is the <metadata> (bind variables) of a Prepared result:
//
//	v1-v3: <flags:int><columns_count:int>[<global_table_spec>?<col_spec_1>...<col_spec_n>]
//	v4+:   <flags:int><columns_count:int><pk_count:int>[<pk_index_1:short>...<pk_index_n>][<global_table_spec>?<col_spec_1>...]
type PreparedMetadata struct {
	GlobalTableSpec bool
	GlobalKeyspace  string
	GlobalTable     string
	PKIndexes       []uint16 // v4+
	Columns         []ColumnSpec
}

type ResultVoid struct{}
type ResultRows struct {
	Meta RowsMetadata
	Rows [][][]byte // Rows[i][j]: cell j of row i; nil = null ([bytes] length -1)
}
type ResultSetKeyspace struct{ Keyspace string }
type ResultPrepared struct {
	ID     []byte
	Bind   PreparedMetadata
	Result RowsMetadata // v2+
}

// SchemaChange is the body shared by RESULT Schema_change and EVENT
// SCHEMA_CHANGE.
//
//	v1/v2: <change:string><keyspace:string><table:string>   (table empty for a keyspace change)
//	v3+:   <change_type:string><target:string><options>
//	       target KEYSPACE: <keyspace>; TABLE, TYPE: <keyspace><name>;
//	       FUNCTION, AGGREGATE (v4+): <keyspace><name><arg_types:string list>
type SchemaChange struct {
	Change   string // CREATED, UPDATED, DROPPED
	Target   string // KEYSPACE, TABLE, TYPE, FUNCTION, AGGREGATE
	Keyspace string
	Name     string
	Args     []string
}
type ResultSchemaChange struct{ SchemaChange }

// EventTopologyChange: "TOPOLOGY_CHANGE" <change:string><node:inet>; EventStatusChange: "STATUS_CHANGE" likewise.
type EventTopologyChange struct {
	Change string // NEW_NODE, REMOVED_NODE, MOVED_NODE
	Addr   []byte
	Port   int32
}
type EventStatusChange struct {
	Change string // UP, DOWN
	Addr   []byte
	Port   int32
}
type EventSchemaChange struct{ SchemaChange }

// Encoded is an encoded response.
type Encoded struct {
	Header Header // Length == len(Body); Flags without compression
	Body   []byte // uncompressed body
	Spans  []Span // body-relative spans of every length / count field
}

// Bytes returns header + uncompressed body.
func (e *Encoded) Bytes() []byte { return Assemble(e.Header, e.Body) }

// FrameSpans returns the spans relative to Bytes(), plus the header length field.
func (e *Encoded) FrameSpans() []Span {
	hs := HeaderSize(e.Header.Version)
	out := make([]Span, 0, len(e.Spans)+1)
	out = append(out, Span{hs - 4, 4, SpanHeaderLength})
	for _, s := range e.Spans {
		out = append(out, Span{s.Off + hs, s.Len, s.Kind})
	}
	return out
}

// ResultKind values.
const (
	KindVoid         int32 = 1
	KindRows         int32 = 2
	KindSetKeyspace  int32 = 3
	KindPrepared     int32 = 4
	KindSchemaChange int32 = 5
)

// Opcode returns the opcode of a message description.
func Opcode(msg interface{}) (byte, error) {
	switch deref(msg).(type) {
	case Ready:
		return OpReady, nil
	case Authenticate:
		return OpAuthenticate, nil
	case AuthChallenge:
		return OpAuthChallenge, nil
	case AuthSuccess:
		return OpAuthSuccess, nil
	case Supported:
		return OpSupported, nil
	case Error:
		return OpError, nil
	case ResultVoid, ResultRows, ResultSetKeyspace, ResultPrepared, ResultSchemaChange:
		return OpResult, nil
	case EventTopologyChange, EventStatusChange, EventSchemaChange:
		return OpEvent, nil
	}
	return 0, fmt.Errorf("frame: unknown message type %T", msg)
}

func deref(msg interface{}) interface{} {
	switch m := msg.(type) {
	case *Ready:
		return *m
	case *Authenticate:
		return *m
	case *AuthChallenge:
		return *m
	case *AuthSuccess:
		return *m
	case *Supported:
		return *m
	case *Error:
		return *m
	case *ResultVoid:
		return *m
	case *ResultRows:
		return *m
	case *ResultSetKeyspace:
		return *m
	case *ResultPrepared:
		return *m
	case *ResultSchemaChange:
		return *m
	case *EventTopologyChange:
		return *m
	case *EventStatusChange:
		return *m
	case *EventSchemaChange:
		return *m
	}
	return msg
}

type encErr struct{ error }

func fail(format string, a ...interface{}) { panic(encErr{fmt.Errorf("frame: "+format, a...)}) }

// Encode encodes a response description. It returns an error when the
// description cannot be expressed in its protocol version (e.g. warnings in v3,
// has_more_pages in v1, a FUNCTION schema change in v3).
func Encode(resp *Response) (enc *Encoded, err error) {
	defer func() {
		if r := recover(); r != nil {
			if e, ok := r.(encErr); ok {
				enc, err = nil, e.error
				return
			}
			panic(r)
		}
	}()
	v := resp.Version
	if v < 1 || v > 5 {
		fail("unsupported version %d", v)
	}
	op, err := Opcode(resp.Msg)
	if err != nil {
		return nil, err
	}
	if !OpDefined(v, op) {
		fail("%s is not defined in v%d", OpName(op), v)
	}
	lo, hi := StreamRange(v)
	if resp.Stream < lo || resp.Stream > hi {
		fail("stream %d not expressible in v%d", resp.Stream, v)
	}
	h := Header{Version: v, Response: true, Stream: resp.Stream, Op: op}
	if v >= 5 {
		h.Flags |= FlagBeta
	}
	w := &W{}
	if resp.TraceID != nil {
		h.Flags |= FlagTracing
		w.UUID(*resp.TraceID)
	}
	if resp.Warnings != nil {
		if v < 4 {
			fail("warnings need v4+")
		}
		h.Flags |= FlagWarning
		w.StringList(resp.Warnings)
	}
	if resp.Payload != nil {
		if v < 4 {
			fail("custom payload needs v4+")
		}
		h.Flags |= FlagCustomPayload
		w.BytesMap(resp.Payload)
	}
	switch m := deref(resp.Msg).(type) {
	case Ready:
	case Authenticate:
		w.String(m.Class)
	case AuthChallenge:
		w.Bytes(m.Token)
	case AuthSuccess:
		w.Bytes(m.Token)
	case Supported:
		w.StringMultimap(m.Options)
	case Error:
		writeError(w, v, &m)
	case ResultVoid:
		w.Int(KindVoid)
	case ResultRows:
		w.Int(KindRows)
		writeRowsMetadata(w, v, &m.Meta)
		w.span(4, SpanRowsCount)
		w.Int(int32(len(m.Rows)))
		for i, row := range m.Rows {
			if int32(len(row)) != m.Meta.ColumnCount {
				fail("row %d has %d cells, metadata says %d columns", i, len(row), m.Meta.ColumnCount)
			}
			for _, cell := range row {
				w.bytesKind(cell, SpanCellLen)
			}
		}
	case ResultSetKeyspace:
		w.Int(KindSetKeyspace)
		w.String(m.Keyspace)
	case ResultPrepared:
		w.Int(KindPrepared)
		w.ShortBytes(m.ID)
		writePreparedMetadata(w, v, &m.Bind)
		if v >= 2 {
			writeRowsMetadata(w, v, &m.Result)
		}
	case ResultSchemaChange:
		w.Int(KindSchemaChange)
		writeSchemaChange(w, v, &m.SchemaChange)
	case EventTopologyChange:
		w.String("TOPOLOGY_CHANGE")
		w.String(m.Change)
		w.Inet(checkAddr(m.Addr), m.Port)
	case EventStatusChange:
		w.String("STATUS_CHANGE")
		w.String(m.Change)
		w.Inet(checkAddr(m.Addr), m.Port)
	case EventSchemaChange:
		w.String("SCHEMA_CHANGE")
		writeSchemaChange(w, v, &m.SchemaChange)
	default:
		fail("unknown message type %T", resp.Msg)
	}
	if w.B == nil {
		w.B = []byte{}
	}
	h.Length = int32(len(w.B))
	return &Encoded{Header: h, Body: w.B, Spans: w.Spans}, nil
}

func checkAddr(a []byte) []byte {
	if len(a) != 4 && len(a) != 16 {
		fail("inet address of %d bytes", len(a))
	}
	return a
}

func writeError(w *W, v int, m *Error) {
	if !ErrorCodeDefined(v, m.Code) {
		fail("error code 0x%04x is not defined in v%d", m.Code, v)
	}
	w.Int(m.Code)
	w.String(m.Message)
	reasonOrCount := func() {
		if v >= 5 {
			w.span(4, SpanReasonMapCount)
			w.Int(int32(len(m.ReasonMap)))
			for _, r := range m.ReasonMap {
				w.InetAddr(checkAddr(r.Addr))
				w.Short(r.Code)
			}
		} else {
			w.span(4, SpanNumFailures)
			w.Int(m.NumFailures)
		}
	}
	switch m.Code {
	case ErrUnavailable:
		w.Consistency(m.Consistency)
		w.Int(m.Required)
		w.Int(m.Alive)
	case ErrWriteTimeout:
		w.Consistency(m.Consistency)
		w.Int(m.Received)
		w.Int(m.BlockFor)
		w.String(m.WriteType)
		if m.Contentions != nil {
			if v < 5 || m.WriteType != "CAS" {
				fail("contentions only exist in v5 for write type CAS")
			}
			w.Short(*m.Contentions)
		} else if v >= 5 && m.WriteType == "CAS" {
			fail("v5 Write_timeout with write type CAS must carry contentions")
		}
	case ErrReadTimeout:
		w.Consistency(m.Consistency)
		w.Int(m.Received)
		w.Int(m.BlockFor)
		w.Byte(m.DataPresent)
	case ErrReadFailure:
		w.Consistency(m.Consistency)
		w.Int(m.Received)
		w.Int(m.BlockFor)
		reasonOrCount()
		w.Byte(m.DataPresent)
	case ErrFunctionFailure:
		w.String(m.Keyspace)
		w.String(m.Function)
		w.StringList(m.ArgTypes)
	case ErrWriteFailure:
		w.Consistency(m.Consistency)
		w.Int(m.Received)
		w.Int(m.BlockFor)
		reasonOrCount()
		w.String(m.WriteType)
	case ErrCASWriteUnknown:
		w.Consistency(m.Consistency)
		w.Int(m.Received)
		w.Int(m.BlockFor)
	case ErrAlreadyExists:
		w.String(m.Keyspace)
		w.String(m.Table)
	case ErrUnprepared:
		w.ShortBytes(m.StatementID)
	}
}

func writeColSpecs(w *W, global bool, gks, gtable string, cols []ColumnSpec) {
	if global {
		w.String(gks)
		w.String(gtable)
	}
	for i, c := range cols {
		if global {
			if c.Keyspace != gks || c.Table != gtable {
				fail("column %d: keyspace/table differ from the global table spec", i)
			}
		} else {
			w.String(c.Keyspace)
			w.String(c.Table)
		}
		w.String(c.Name)
		if c.Type == nil {
			fail("column %d without type", i)
		}
		w.WriteType(c.Type)
	}
}

func checkTypes(v int, cols []ColumnSpec) {
	var walk func(t *Type)
	walk = func(t *Type) {
		if t == nil {
			fail("nil type")
		}
		if !TypeIDDefined(v, t.ID) && t.ID != TCustom {
			fail("type id 0x%04x not defined in v%d", t.ID, v)
		}
		switch t.ID {
		case TList, TSet:
			walk(t.Elem)
		case TMap:
			walk(t.Key)
			walk(t.Elem)
		case TTuple:
			for _, e := range t.Elems {
				walk(e)
			}
		case TUDT:
			for _, f := range t.Fields {
				walk(f.Type)
			}
		}
	}
	for _, c := range cols {
		walk(c.Type)
	}
}

func writeRowsMetadata(w *W, v int, m *RowsMetadata) {
	if v == 1 && (m.HasMorePages || m.NoMetadata) {
		fail("v1 result metadata has neither has_more_pages nor no_metadata")
	}
	if !m.NoMetadata && int(m.ColumnCount) != len(m.Columns) {
		fail("columns_count %d but %d column specs", m.ColumnCount, len(m.Columns))
	}
	if m.ColumnCount < 0 {
		fail("negative columns_count")
	}
	checkTypes(v, m.Columns)
	w.Int(m.flags())
	w.span(4, SpanColumnsCount)
	w.Int(m.ColumnCount)
	if m.HasMorePages {
		w.Bytes(m.PagingState)
	}
	if m.NoMetadata {
		return
	}
	writeColSpecs(w, m.GlobalTableSpec, m.GlobalKeyspace, m.GlobalTable, m.Columns)
}

func writePreparedMetadata(w *W, v int, m *PreparedMetadata) {
	checkTypes(v, m.Columns)
	var f int32
	if m.GlobalTableSpec {
		f = 1
	}
	w.Int(f)
	w.span(4, SpanColumnsCount)
	w.Int(int32(len(m.Columns)))
	if v >= 4 {
		w.span(4, SpanPKCount)
		w.Int(int32(len(m.PKIndexes)))
		for _, i := range m.PKIndexes {
			w.Short(i)
		}
	} else if len(m.PKIndexes) > 0 {
		fail("partition key indexes need v4+")
	}
	writeColSpecs(w, m.GlobalTableSpec, m.GlobalKeyspace, m.GlobalTable, m.Columns)
}

func writeSchemaChange(w *W, v int, m *SchemaChange) {
	if v <= 2 {
		switch m.Target {
		case "KEYSPACE":
			if m.Name != "" {
				fail("keyspace schema change with an object name")
			}
		case "TABLE":
		default:
			fail("schema change target %s not expressible in v%d", m.Target, v)
		}
		w.String(m.Change)
		w.String(m.Keyspace)
		w.String(m.Name)
		return
	}
	w.String(m.Change)
	w.String(m.Target)
	switch m.Target {
	case "KEYSPACE":
		w.String(m.Keyspace)
	case "TABLE", "TYPE":
		w.String(m.Keyspace)
		w.String(m.Name)
	case "FUNCTION", "AGGREGATE":
		if v < 4 {
			fail("schema change target %s needs v4+", m.Target)
		}
		w.String(m.Keyspace)
		w.String(m.Name)
		w.StringList(m.Args)
	default:
		fail("unknown schema change target %q", m.Target)
	}
}

// ---------------------------------------------------------------------------
// Response decoder (used to self-check the encoders and on recorded frames).

// DecodeResponse decodes a complete uncompressed response frame.
func DecodeResponse(frame []byte) (*Response, error) {
	h, body, err := SplitFrame(frame)
	if err != nil {
		return nil, err
	}
	if h.Flags&FlagCompression != 0 {
		return nil, fmt.Errorf("frame: DecodeResponse needs an uncompressed frame")
	}
	return DecodeResponseBody(h, body)
}

// DecodeResponseBody decodes an uncompressed response body.
func DecodeResponseBody(h Header, body []byte) (*Response, error) {
	v := h.Version
	if v < 1 || v > 5 {
		return nil, fmt.Errorf("frame: unsupported version %d", v)
	}
	if !h.Response {
		return nil, fmt.Errorf("frame: direction bit clear on a response")
	}
	if !OpDefined(v, h.Op) || OpIsRequest(h.Op) {
		return nil, fmt.Errorf("frame: opcode %s is not a v%d response", OpName(h.Op), v)
	}
	if bad := h.Flags &^ ValidHeaderFlags(v, true); bad != 0 {
		return nil, fmt.Errorf("frame: header flags 0x%02x not defined for a v%d response", bad, v)
	}
	resp := &Response{Version: v, Stream: h.Stream}
	r := &R{B: body}
	var err error
	if h.Flags&FlagTracing != 0 {
		u, err := r.UUID()
		if err != nil {
			return nil, err
		}
		resp.TraceID = &u
	}
	if h.Flags&FlagWarning != 0 {
		if resp.Warnings, err = r.StringList(); err != nil {
			return nil, err
		}
	}
	if h.Flags&FlagCustomPayload != 0 {
		if resp.Payload, err = r.BytesMap(); err != nil {
			return nil, err
		}
	}
	switch h.Op {
	case OpReady:
		resp.Msg = Ready{}
	case OpAuthenticate:
		s, err := r.String()
		if err != nil {
			return nil, err
		}
		resp.Msg = Authenticate{s}
	case OpAuthChallenge:
		b, err := r.Bytes()
		if err != nil {
			return nil, err
		}
		resp.Msg = AuthChallenge{b}
	case OpAuthSuccess:
		b, err := r.Bytes()
		if err != nil {
			return nil, err
		}
		resp.Msg = AuthSuccess{b}
	case OpSupported:
		m, err := r.StringMultimap()
		if err != nil {
			return nil, err
		}
		resp.Msg = Supported{m}
	case OpError:
		m, err := readError(r, v)
		if err != nil {
			return nil, err
		}
		resp.Msg = *m
	case OpResult:
		kind, err := r.Int()
		if err != nil {
			return nil, err
		}
		switch kind {
		case KindVoid:
			resp.Msg = ResultVoid{}
		case KindRows:
			var m ResultRows
			if err := readRowsMetadata(r, v, &m.Meta); err != nil {
				return nil, err
			}
			n, err := r.Int()
			if err != nil {
				return nil, err
			}
			if n < 0 {
				return nil, fmt.Errorf("frame: negative rows_count %d", n)
			}
			for i := 0; i < int(n); i++ {
				row := make([][]byte, m.Meta.ColumnCount)
				for j := range row {
					if row[j], err = r.Bytes(); err != nil {
						return nil, fmt.Errorf("row %d cell %d: %w", i, j, err)
					}
				}
				m.Rows = append(m.Rows, row)
			}
			resp.Msg = m
		case KindSetKeyspace:
			s, err := r.String()
			if err != nil {
				return nil, err
			}
			resp.Msg = ResultSetKeyspace{s}
		case KindPrepared:
			var m ResultPrepared
			if m.ID, err = r.ShortBytes(); err != nil {
				return nil, err
			}
			if err := readPreparedMetadata(r, v, &m.Bind); err != nil {
				return nil, err
			}
			if v >= 2 {
				if err := readRowsMetadata(r, v, &m.Result); err != nil {
					return nil, err
				}
			}
			resp.Msg = m
		case KindSchemaChange:
			var m ResultSchemaChange
			if err := readSchemaChange(r, v, &m.SchemaChange); err != nil {
				return nil, err
			}
			resp.Msg = m
		default:
			return nil, fmt.Errorf("frame: unknown result kind %d", kind)
		}
	case OpEvent:
		typ, err := r.String()
		if err != nil {
			return nil, err
		}
		switch typ {
		case "TOPOLOGY_CHANGE", "STATUS_CHANGE":
			change, err := r.String()
			if err != nil {
				return nil, err
			}
			addr, port, err := r.Inet()
			if err != nil {
				return nil, err
			}
			if typ == "TOPOLOGY_CHANGE" {
				resp.Msg = EventTopologyChange{change, addr, port}
			} else {
				resp.Msg = EventStatusChange{change, addr, port}
			}
		case "SCHEMA_CHANGE":
			var m EventSchemaChange
			if err := readSchemaChange(r, v, &m.SchemaChange); err != nil {
				return nil, err
			}
			resp.Msg = m
		default:
			return nil, fmt.Errorf("frame: unknown event type %q", typ)
		}
	}
	if err := r.End(); err != nil {
		return nil, err
	}
	return resp, nil
}

func readError(r *R, v int) (*Error, error) {
	m := &Error{}
	var err error
	if m.Code, err = r.Int(); err != nil {
		return nil, err
	}
	if !ErrorCodeDefined(v, m.Code) {
		return nil, fmt.Errorf("frame: error code 0x%04x not defined in v%d", m.Code, v)
	}
	if m.Message, err = r.String(); err != nil {
		return nil, err
	}
	clrb := func() error {
		if m.Consistency, err = r.Short(); err != nil {
			return err
		}
		if m.Received, err = r.Int(); err != nil {
			return err
		}
		m.BlockFor, err = r.Int()
		return err
	}
	reasonOrCount := func() error {
		if v < 5 {
			m.NumFailures, err = r.Int()
			return err
		}
		n, err := r.Int()
		if err != nil {
			return err
		}
		if n < 0 {
			return fmt.Errorf("frame: negative reason map size %d", n)
		}
		m.ReasonMap = []Reason{}
		for i := 0; i < int(n); i++ {
			a, err := r.InetAddr()
			if err != nil {
				return err
			}
			c, err := r.Short()
			if err != nil {
				return err
			}
			m.ReasonMap = append(m.ReasonMap, Reason{a, c})
		}
		return nil
	}
	switch m.Code {
	case ErrUnavailable:
		if m.Consistency, err = r.Short(); err != nil {
			return nil, err
		}
		if m.Required, err = r.Int(); err != nil {
			return nil, err
		}
		if m.Alive, err = r.Int(); err != nil {
			return nil, err
		}
	case ErrWriteTimeout:
		if err = clrb(); err != nil {
			return nil, err
		}
		if m.WriteType, err = r.String(); err != nil {
			return nil, err
		}
		if v >= 5 && m.WriteType == "CAS" {
			c, err := r.Short()
			if err != nil {
				return nil, err
			}
			m.Contentions = &c
		}
	case ErrReadTimeout:
		if err = clrb(); err != nil {
			return nil, err
		}
		if m.DataPresent, err = r.Byte(); err != nil {
			return nil, err
		}
	case ErrReadFailure:
		if err = clrb(); err != nil {
			return nil, err
		}
		if err = reasonOrCount(); err != nil {
			return nil, err
		}
		if m.DataPresent, err = r.Byte(); err != nil {
			return nil, err
		}
	case ErrFunctionFailure:
		if m.Keyspace, err = r.String(); err != nil {
			return nil, err
		}
		if m.Function, err = r.String(); err != nil {
			return nil, err
		}
		if m.ArgTypes, err = r.StringList(); err != nil {
			return nil, err
		}
	case ErrWriteFailure:
		if err = clrb(); err != nil {
			return nil, err
		}
		if err = reasonOrCount(); err != nil {
			return nil, err
		}
		if m.WriteType, err = r.String(); err != nil {
			return nil, err
		}
	case ErrCASWriteUnknown:
		if err = clrb(); err != nil {
			return nil, err
		}
	case ErrAlreadyExists:
		if m.Keyspace, err = r.String(); err != nil {
			return nil, err
		}
		if m.Table, err = r.String(); err != nil {
			return nil, err
		}
	case ErrUnprepared:
		if m.StatementID, err = r.ShortBytes(); err != nil {
			return nil, err
		}
	}
	return m, nil
}

func readColSpecs(r *R, v int, global bool, n int32) (gks, gtable string, cols []ColumnSpec, err error) {
	if global {
		if gks, err = r.String(); err != nil {
			return
		}
		if gtable, err = r.String(); err != nil {
			return
		}
	}
	for i := int32(0); i < n; i++ {
		c := ColumnSpec{Keyspace: gks, Table: gtable}
		if !global {
			if c.Keyspace, err = r.String(); err != nil {
				return
			}
			if c.Table, err = r.String(); err != nil {
				return
			}
		}
		if c.Name, err = r.String(); err != nil {
			return
		}
		if c.Type, err = r.ReadType(v); err != nil {
			return
		}
		cols = append(cols, c)
	}
	return
}

func readRowsMetadata(r *R, v int, m *RowsMetadata) error {
	f, err := r.Int()
	if err != nil {
		return err
	}
	mask := int32(7)
	if v == 1 {
		mask = 1
	}
	if f&^mask != 0 {
		return fmt.Errorf("frame: result metadata flags 0x%x not defined in v%d", f&^mask, v)
	}
	m.GlobalTableSpec, m.HasMorePages, m.NoMetadata = f&1 != 0, f&2 != 0, f&4 != 0
	if m.ColumnCount, err = r.Int(); err != nil {
		return err
	}
	if m.ColumnCount < 0 {
		return fmt.Errorf("frame: negative columns_count %d", m.ColumnCount)
	}
	if m.HasMorePages {
		if m.PagingState, err = r.Bytes(); err != nil {
			return err
		}
	}
	if m.NoMetadata {
		return nil
	}
	m.GlobalKeyspace, m.GlobalTable, m.Columns, err = readColSpecs(r, v, m.GlobalTableSpec, m.ColumnCount)
	return err
}

func readPreparedMetadata(r *R, v int, m *PreparedMetadata) error {
	f, err := r.Int()
	if err != nil {
		return err
	}
	if f&^1 != 0 {
		return fmt.Errorf("frame: prepared metadata flags 0x%x not defined", f&^1)
	}
	m.GlobalTableSpec = f&1 != 0
	n, err := r.Int()
	if err != nil {
		return err
	}
	if n < 0 {
		return fmt.Errorf("frame: negative columns_count %d", n)
	}
	if v >= 4 {
		pk, err := r.Int()
		if err != nil {
			return err
		}
		if pk < 0 {
			return fmt.Errorf("frame: negative pk_count %d", pk)
		}
		for i := int32(0); i < pk; i++ {
			x, err := r.Short()
			if err != nil {
				return err
			}
			m.PKIndexes = append(m.PKIndexes, x)
		}
	}
	m.GlobalKeyspace, m.GlobalTable, m.Columns, err = readColSpecs(r, v, m.GlobalTableSpec, n)
	return err
}

func readSchemaChange(r *R, v int, m *SchemaChange) error {
	var err error
	if m.Change, err = r.String(); err != nil {
		return err
	}
	if v <= 2 {
		if m.Keyspace, err = r.String(); err != nil {
			return err
		}
		if m.Name, err = r.String(); err != nil {
			return err
		}
		m.Target = "TABLE"
		if m.Name == "" {
			m.Target = "KEYSPACE"
		}
		return nil
	}
	if m.Target, err = r.String(); err != nil {
		return err
	}
	switch m.Target {
	case "KEYSPACE":
		m.Keyspace, err = r.String()
		return err
	case "TABLE", "TYPE":
	case "FUNCTION", "AGGREGATE":
		if v < 4 {
			return fmt.Errorf("frame: schema change target %s in v%d", m.Target, v)
		}
	default:
		return fmt.Errorf("frame: unknown schema change target %q", m.Target)
	}
	if m.Keyspace, err = r.String(); err != nil {
		return err
	}
	if m.Name, err = r.String(); err != nil {
		return err
	}
	if m.Target == "FUNCTION" || m.Target == "AGGREGATE" {
		m.Args, err = r.StringList()
	}
	return err
}
