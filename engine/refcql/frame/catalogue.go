package frame

import (
	"fmt"
	"strings"
)

// Entry is one well-formed response of the catalogue.
type Entry struct {
	// Class names the shape class (message kind + shape, without envelope and
	// without cell contents). One representative per class is enough for fault
	// injection; C04 runs all entries.
	Class string
	Resp  *Response
	// Companion is set for Rows results with the no_metadata flag: the PREPARED
	// response whose <result_metadata> describes the columns the driver must use.
	Companion *Response
	// Typed: every column has one of the "typed" types (int, varchar, blob,
	// list<int>, tuple<int,varchar>) and every non-null, non-empty cell is a valid
	// encoding of that type, so that typed scans (MapScan, SliceMap, RowData) can
	// be checked and not only the raw cell bytes.
	Typed bool
}

// Envelope is a combination of stream id and flag-driven body prefixes.
type Envelope struct {
	Stream   int
	TraceID  *[16]byte
	Warnings []string
	Payload  []KB
}

func (e Envelope) String() string {
	s := fmt.Sprintf("stream=%d", e.Stream)
	if e.TraceID != nil {
		s += "+trace"
	}
	if e.Warnings != nil {
		s += fmt.Sprintf("+warn%d", len(e.Warnings))
	}
	if e.Payload != nil {
		s += fmt.Sprintf("+payload%d", len(e.Payload))
	}
	return s
}

var catTrace = [16]byte{0xf0, 0xe1, 0xd2, 0xc3, 0xb4, 0xa5, 0x96, 0x87, 0x78, 0x69, 0x5a, 0x4b, 0x3c, 0x2d, 0x1e, 0x0f}

// Envelopes returns the envelope product of a version: streams x tracing x
// warnings (v4+) x custom payload (v4+). full=false gives a covering subset.
func Envelopes(version int, full bool) []Envelope {
	streams := []int{1, 0, 127}
	if version >= 3 {
		streams = append(streams, 128, 32767)
	}
	warns := [][]string{nil}
	pays := [][]KB{nil}
	if version >= 4 {
		warns = [][]string{nil, {}, {"w1"}, {"first warning", "second warning ✓ with more text"}}
		pays = [][]KB{nil, {}, {{Key: "k", Value: []byte{1, 2, 3}}}, {{Key: "k1", Value: nil}, {Key: "another-key", Value: []byte{}}}}
	}
	var out []Envelope
	if !full {
		out = append(out, Envelope{Stream: 1}, Envelope{Stream: streams[len(streams)-1], TraceID: &catTrace})
		if version >= 4 {
			out = append(out, Envelope{Stream: 127, Warnings: warns[2]}, Envelope{Stream: 128, Payload: pays[3]},
				Envelope{Stream: 0, TraceID: &catTrace, Warnings: warns[3], Payload: pays[2]}, Envelope{Stream: 1, Warnings: warns[1], Payload: pays[1]})
		}
		return out
	}
	i := 0
	for _, tr := range []bool{false, true} {
		for _, w := range warns {
			for _, p := range pays {
				// streams rotate over the flag product, and every stream is used with the plain envelope
				e := Envelope{Stream: streams[i%len(streams)], Warnings: w, Payload: p}
				if tr {
					e.TraceID = &catTrace
				}
				out = append(out, e)
				i++
			}
		}
	}
	for _, s := range streams[1:] {
		out = append(out, Envelope{Stream: s})
	}
	return out
}

func apply(version int, e Envelope, msg interface{}) *Response {
	return &Response{Version: version, Stream: e.Stream, TraceID: e.TraceID, Warnings: e.Warnings, Payload: e.Payload, Msg: msg}
}

// ---------------------------------------------------------------------------
// Types.

// ApacheClassTypes maps the marshal class names a node uses for CQL types in
// custom-type descriptors (protocol versions that lack the type id) to the type.
var ApacheClassTypes = map[string]uint16{
	"org.apache.cassandra.db.marshal.AsciiType":         TAscii,
	"org.apache.cassandra.db.marshal.LongType":          TBigint,
	"org.apache.cassandra.db.marshal.BytesType":         TBlob,
	"org.apache.cassandra.db.marshal.BooleanType":       TBoolean,
	"org.apache.cassandra.db.marshal.CounterColumnType": TCounter,
	"org.apache.cassandra.db.marshal.DecimalType":       TDecimal,
	"org.apache.cassandra.db.marshal.DoubleType":        TDouble,
	"org.apache.cassandra.db.marshal.FloatType":         TFloat,
	"org.apache.cassandra.db.marshal.Int32Type":         TInt,
	"org.apache.cassandra.db.marshal.TimestampType":     TTimestamp,
	"org.apache.cassandra.db.marshal.DateType":          TTimestamp,
	"org.apache.cassandra.db.marshal.UUIDType":          TUUID,
	"org.apache.cassandra.db.marshal.LexicalUUIDType":   TUUID,
	"org.apache.cassandra.db.marshal.UTF8Type":          TVarchar,
	"org.apache.cassandra.db.marshal.IntegerType":       TVarint,
	"org.apache.cassandra.db.marshal.TimeUUIDType":      TTimeuuid,
	"org.apache.cassandra.db.marshal.InetAddressType":   TInet,
	"org.apache.cassandra.db.marshal.SimpleDateType":    TDate,
	"org.apache.cassandra.db.marshal.TimeType":          TTime,
	"org.apache.cassandra.db.marshal.ShortType":         TSmallint,
	"org.apache.cassandra.db.marshal.ByteType":          TTinyint,
	"org.apache.cassandra.db.marshal.DurationType":      TDuration,
}

// CustomClassNames are the class names used for custom types in the catalogue
// (the same list in both tiers; the parameter is kept for callers).
func CustomClassNames(thorough bool) []string {
	return []string{
		"com.example.MyType",
		"org.apache.cassandra.db.marshal.DurationType",
		"org.apache.cassandra.db.marshal.TupleType(org.apache.cassandra.db.marshal.Int32Type,org.apache.cassandra.db.marshal.UTF8Type)",
		"",
		"org.apache.cassandra.db.marshal.Int32Type",
		"org.apache.cassandra.db.marshal.SimpleDateType",
		"org.apache.cassandra.db.marshal.DateType",
		"org.apache.cassandra.db.marshal.ReversedType(org.apache.cassandra.db.marshal.UTF8Type)",
		"org.apache.cassandra.db.marshal.UserType(ks,75647431,61:org.apache.cassandra.db.marshal.Int32Type)",
		"org.apache.cassandra.db.marshal.ListType(org.apache.cassandra.db.marshal.Int32Type)",
		"org.apache.cassandra.db.marshal.DynamicCompositeType(a=>org.apache.cassandra.db.marshal.BytesType)",
		// bare parameterised class names: a node never prints them without their
		// parameters, but a [string] is a [string]
		"org.apache.cassandra.db.marshal.ListType",
		"org.apache.cassandra.db.marshal.MapType",
		"org.apache.cassandra.db.marshal.SetType",
		"org.apache.cassandra.db.marshal.TupleType",
	}
}

// Leaves returns every non-parameterised type of a version, custom types included.
func Leaves(version int, thorough bool) []*Type {
	var out []*Type
	for _, id := range LeafTypeIDs(version) {
		out = append(out, Leaf(id))
	}
	for _, c := range CustomClassNames(thorough) {
		out = append(out, CustomType(c))
	}
	return out
}

// TypeTrees returns the type trees of a version up to depth 2 (leaf = depth 0):
// every leaf; list/set of every leaf; map with every leaf as key and as value;
// tuples (v3+) of 1..3 elements; UDTs (v3+) of 0..2 fields; and every composite
// constructor around every composite constructor.
func TypeTrees(version int, thorough bool) []*Type {
	leaves := Leaves(version, thorough)
	out := append([]*Type{}, leaves...)
	tint, ttext := Leaf(TInt), Leaf(TVarchar)
	for _, l := range leaves {
		out = append(out, ListOf(l), SetOf(l), MapOf(l, tint), MapOf(ttext, l))
	}
	if thorough {
		for _, k := range leaves {
			for _, v := range leaves {
				if k.ID != TCustom && v.ID != TCustom {
					out = append(out, MapOf(k, v))
				}
			}
		}
	}
	var comps []*Type
	comps = append(comps, ListOf(tint), SetOf(ttext), MapOf(tint, ttext))
	if version >= 3 {
		for _, l := range leaves {
			out = append(out, TupleOf(l), TupleOf(tint, l), TupleOf(l, ttext, Leaf(TBlob)),
				UDTOf("ks", "one_field", UDTField{"f", l}), UDTOf("other_ks", "Two✓", UDTField{"a", ttext}, UDTField{"b", l}))
		}
		out = append(out, UDTOf("ks", "empty_udt"))
		comps = append(comps, TupleOf(tint, ttext), UDTOf("ks", "u", UDTField{"a", tint}))
	}
	for _, inner := range comps {
		out = append(out, ListOf(inner), SetOf(inner), MapOf(inner, tint), MapOf(ttext, inner), MapOf(inner, inner))
		if version >= 3 {
			out = append(out, TupleOf(inner), TupleOf(tint, inner, inner), UDTOf("ks", "nest", UDTField{"x", inner}, UDTField{"y", tint}))
		}
	}
	return out
}

// Typed column types (see Entry.Typed).
func TypedTypes(version int) []*Type {
	t := []*Type{Leaf(TInt), Leaf(TVarchar), Leaf(TBlob), ListOf(Leaf(TInt))}
	if version >= 3 {
		t = append(t, TupleOf(Leaf(TInt), Leaf(TVarchar)))
	}
	return t
}

// Cell kinds.
const (
	CellNull = iota
	CellEmpty
	CellNormal
)

// TypedCell returns a cell of the given kind for one of the TypedTypes; seed
// varies the content. Collections have no empty (zero-length) encoding, an
// "empty" list cell is the encoding of the empty list.
func TypedCell(version int, t *Type, kind, seed int) []byte {
	if kind == CellNull {
		return nil
	}
	switch t.ID {
	case TInt:
		if kind == CellEmpty {
			return []byte{}
		}
		return IntCell(int32(seed*1000003 - 7))
	case TVarchar:
		if kind == CellEmpty {
			return []byte{}
		}
		return TextCell(fmt.Sprintf("text-%d-✓", seed))
	case TBlob:
		if kind == CellEmpty {
			return []byte{}
		}
		return []byte{0, byte(seed), 0xff, 0x80}
	case TList:
		if kind == CellEmpty {
			return CollectionCell(version, 0)
		}
		return CollectionCell(version, 3, IntCell(int32(seed)), IntCell(-1), IntCell(2147483647))
	case TTuple:
		if kind == CellEmpty {
			return []byte{}
		}
		switch seed % 3 {
		case 0:
			return TupleCell(IntCell(int32(seed)), TextCell("tuple-text"))
		case 1:
			return TupleCell(nil, TextCell(""))
		}
		return TupleCell(IntCell(-5), nil)
	}
	panic("frame: TypedCell: not a typed type: " + t.String())
}

// OpaqueCell returns a cell for an arbitrary type: opaque bytes, except for
// tuples whose cell must be a sequence of [bytes] (drivers split them).
func OpaqueCell(t *Type, kind, seed int) []byte {
	switch kind {
	case CellNull:
		return nil
	case CellEmpty:
		return []byte{}
	}
	if t.ID == TTuple {
		elems := make([][]byte, len(t.Elems))
		for i := range elems {
			switch (seed + i) % 3 {
			case 0:
				elems[i] = []byte{0xe0 | byte(i), byte(seed)}
			case 1:
				elems[i] = nil
			case 2:
				elems[i] = []byte{}
			}
		}
		return TupleCell(elems...)
	}
	return []byte{0xde, 0xad, byte(seed), 0xbe, 0xef}
}

// ---------------------------------------------------------------------------

func colSpecs(ks, table string, types []*Type) []ColumnSpec {
	cols := make([]ColumnSpec, len(types))
	for i, t := range types {
		cols[i] = ColumnSpec{Keyspace: ks, Table: table, Name: fmt.Sprintf("c%d", i), Type: t}
	}
	return cols
}

// rowsMeta builds result metadata; without a global table spec the columns get
// different keyspaces/tables so that a mix-up is visible.
func rowsMeta(version int, types []*Type, global, more, noMeta bool, paging []byte) RowsMetadata {
	m := RowsMetadata{GlobalTableSpec: global, HasMorePages: more, NoMetadata: noMeta, ColumnCount: int32(len(types))}
	if more {
		m.PagingState = paging
	}
	if noMeta {
		if global {
			// the flag may be set together with no_metadata; nothing is written for it
		}
		return m
	}
	if global {
		m.GlobalKeyspace, m.GlobalTable = "gks", "gtable"
		m.Columns = colSpecs("gks", "gtable", types)
	} else {
		m.Columns = colSpecs("", "", types)
		for i := range m.Columns {
			m.Columns[i].Keyspace = fmt.Sprintf("ks%d", i)
			m.Columns[i].Table = fmt.Sprintf("table_%d", i)
		}
	}
	return m
}

func typeNamesOf(types []*Type) string {
	s := make([]string, len(types))
	for i, t := range types {
		s[i] = t.String()
	}
	return strings.Join(s, ",")
}

func shapeOf(t *Type) string {
	switch t.ID {
	case TCustom:
		if _, ok := ApacheClassTypes[t.Custom]; ok {
			return "custom-apache"
		}
		return "custom"
	case TList, TSet:
		return typeNames[t.ID] + "<" + shapeOf(t.Elem) + ">"
	case TMap:
		return "map<" + shapeOf(t.Key) + "," + shapeOf(t.Elem) + ">"
	case TTuple:
		s := make([]string, len(t.Elems))
		for i, e := range t.Elems {
			s[i] = shapeOf(e)
		}
		return "tuple<" + strings.Join(s, ",") + ">"
	case TUDT:
		s := make([]string, len(t.Fields))
		for i, f := range t.Fields {
			s[i] = shapeOf(f.Type)
		}
		return "udt{" + strings.Join(s, ",") + "}"
	}
	return "leaf"
}

// Options of the catalogue.
type CatalogueOptions struct {
	Thorough bool
}

// Catalogue enumerates the well-formed responses of a protocol version:
// every response kind x envelopes x (for rows / prepared) metadata flags x
// 0..3 columns x type trees to depth 2 x 0..2 rows with null / empty / normal
// cells x pk index lists; every ERROR code of the version with its fields;
// every schema-change and event shape.
func Catalogue(version int, o CatalogueOptions, emit func(*Entry)) {
	v := version
	full := Envelopes(v, true)
	few := Envelopes(v, false)
	if o.Thorough {
		few = full
	}
	plain := Envelope{Stream: 1}

	simple := func(class string, envs []Envelope, msg interface{}) {
		for _, e := range envs {
			emit(&Entry{Class: class, Resp: apply(v, e, msg)})
		}
	}

	// --- READY, AUTHENTICATE, AUTH_CHALLENGE, AUTH_SUCCESS, SUPPORTED
	simple("ready", full, Ready{})
	for i, c := range []string{"org.apache.cassandra.auth.PasswordAuthenticator", "", "com.example.Auth✓"} {
		simple(fmt.Sprintf("authenticate/%d", i), few, Authenticate{c})
	}
	if v >= 2 {
		for i, tok := range [][]byte{nil, {}, []byte("\x00challenge\xff")} {
			simple(fmt.Sprintf("auth_challenge/%d", i), few, AuthChallenge{tok})
			simple(fmt.Sprintf("auth_success/%d", i), few, AuthSuccess{tok})
		}
	}
	for i, m := range [][]KL{
		{},
		{{"COMPRESSION", []string{"snappy", "lz4"}}, {"CQL_VERSION", []string{"3.4.4"}}},
		{{"PROTOCOL_VERSIONS", []string{"3/v3", "4/v4", "5/v5-beta"}}, {"EMPTY", []string{}}, {"", []string{""}}},
	} {
		simple(fmt.Sprintf("supported/%d", i), few, Supported{m})
	}

	// --- ERROR: every code of the version with its fields
	catalogueErrors(v, o, few, emit)

	// --- RESULT void / set_keyspace
	simple("result/void", full, ResultVoid{})
	for i, ks := range []string{"ks", "", "Mixed_Case✓"} {
		simple(fmt.Sprintf("result/set_keyspace/%d", i), few, ResultSetKeyspace{ks})
	}

	// --- schema changes (RESULT and EVENT) and node events
	for _, sc := range SchemaChanges(v) {
		cls := fmt.Sprintf("schema_change/%s", sc.Target)
		simple("result/"+cls, few, ResultSchemaChange{sc})
		emit(&Entry{Class: "event/" + cls, Resp: apply(v, Envelope{Stream: -1}, EventSchemaChange{sc})})
	}
	addrs := [][]byte{{10, 0, 0, 1}, {255, 255, 255, 255}, {0x20, 0x01, 0x0d, 0xb8, 0, 0, 0, 0, 0, 0, 0, 0, 0, 0, 0, 1},
		{0xfe, 0x80, 0, 0, 0, 0, 0, 0, 0x02, 0x11, 0x22, 0xff, 0xfe, 0x33, 0x44, 0x55}}
	for ai, a := range addrs {
		for _, port := range []int32{9042, 0, 65535} {
			for _, ch := range []string{"NEW_NODE", "REMOVED_NODE", "MOVED_NODE"} {
				emit(&Entry{Class: fmt.Sprintf("event/topology/addr%d", len(a)), Resp: apply(v, Envelope{Stream: -1}, EventTopologyChange{ch, a, port})})
			}
			for _, ch := range []string{"UP", "DOWN"} {
				emit(&Entry{Class: fmt.Sprintf("event/status/addr%d", len(a)), Resp: apply(v, Envelope{Stream: -1}, EventStatusChange{ch, a, port})})
			}
		}
		_ = ai
	}

	// --- RESULT rows
	catalogueRows(v, o, plain, few, emit)

	// --- RESULT prepared
	cataloguePrepared(v, o, few, emit)
}

// SchemaChanges lists every change x target shape of a version.
func SchemaChanges(v int) []SchemaChange {
	var out []SchemaChange
	for _, ch := range []string{"CREATED", "UPDATED", "DROPPED"} {
		out = append(out, SchemaChange{Change: ch, Target: "KEYSPACE", Keyspace: "ks1"},
			SchemaChange{Change: ch, Target: "TABLE", Keyspace: "ks1", Name: "tbl"})
		if v >= 3 {
			out = append(out, SchemaChange{Change: ch, Target: "TYPE", Keyspace: "ks1", Name: "my_type"})
		}
		if v >= 4 {
			out = append(out,
				SchemaChange{Change: ch, Target: "FUNCTION", Keyspace: "ks1", Name: "fn", Args: []string{}},
				SchemaChange{Change: ch, Target: "FUNCTION", Keyspace: "ks1", Name: "fn", Args: []string{"int", "map<text, frozen<list<int>>>"}},
				SchemaChange{Change: ch, Target: "AGGREGATE", Keyspace: "ks1", Name: "agg", Args: []string{"text"}},
				SchemaChange{Change: ch, Target: "AGGREGATE", Keyspace: "", Name: "", Args: []string{"", "x"}})
		}
	}
	return out
}

func catalogueErrors(v int, o CatalogueOptions, envs []Envelope, emit func(*Entry)) {
	msgs := []string{"an error message", "", "ünïcode ✓"}
	conss := []uint16{Any, One, Two, Three, Quorum, All, LocalQuorum, EachQuorum, Serial, LocalSerial, LocalOne}
	add := func(class string, e Error) {
		for i, env := range envs {
			e2 := e
			e2.Message = msgs[i%len(msgs)]
			emit(&Entry{Class: "error/" + class, Resp: apply(v, env, e2)})
		}
	}
	reasons := [][]Reason{
		{},
		{{[]byte{10, 0, 0, 9}, 0}},
		{{[]byte{192, 168, 1, 200}, 1}, {[]byte{0x20, 0x01, 0x0d, 0xb8, 0, 0, 0, 0, 0, 0, 0, 0, 0, 0, 0, 2}, 0xffff}, {[]byte{0, 0, 0, 0, 0, 0, 0, 0, 0, 0, 0, 0, 0, 0, 0, 1}, 2}},
	}
	for _, code := range ErrorCodes(v) {
		switch code {
		case ErrUnavailable:
			for i, c := range conss {
				add("unavailable", Error{Code: code, Consistency: c, Required: int32(i + 1), Alive: int32(i)})
			}
			add("unavailable", Error{Code: code, Consistency: Quorum, Required: 2147483647, Alive: 0})
		case ErrWriteTimeout:
			for i, wt := range []string{"SIMPLE", "BATCH", "UNLOGGED_BATCH", "COUNTER", "BATCH_LOG", "CAS", "VIEW", "CDC", ""} {
				e := Error{Code: code, Consistency: conss[i%len(conss)], Received: int32(i), BlockFor: int32(i + 1), WriteType: wt}
				if v >= 5 && wt == "CAS" {
					for _, c := range []uint16{0, 3, 65535} {
						c := c
						e.Contentions = &c
						add("write_timeout/cas-contentions", e)
					}
					continue
				}
				add("write_timeout", e)
			}
		case ErrReadTimeout:
			for i, dp := range []byte{0, 1, 2, 255} {
				add("read_timeout", Error{Code: code, Consistency: conss[(i+3)%len(conss)], Received: int32(i), BlockFor: 3, DataPresent: dp})
			}
		case ErrReadFailure:
			for i, dp := range []byte{0, 1} {
				if v >= 5 {
					for _, rm := range reasons {
						add(fmt.Sprintf("read_failure/reasons%d", len(rm)), Error{Code: code, Consistency: conss[i+4], Received: 1, BlockFor: 2, ReasonMap: rm, DataPresent: dp})
					}
				} else {
					for _, nf := range []int32{0, 1, 5} {
						add("read_failure", Error{Code: code, Consistency: conss[i+4], Received: 1, BlockFor: 2, NumFailures: nf, DataPresent: dp})
					}
				}
			}
		case ErrWriteFailure:
			for i, wt := range []string{"SIMPLE", "CAS", "COUNTER"} {
				if v >= 5 {
					for _, rm := range reasons {
						add(fmt.Sprintf("write_failure/reasons%d", len(rm)), Error{Code: code, Consistency: conss[i+1], Received: 0, BlockFor: 3, ReasonMap: rm, WriteType: wt})
					}
				} else {
					for _, nf := range []int32{0, 2} {
						add("write_failure", Error{Code: code, Consistency: conss[i+1], Received: 0, BlockFor: 3, NumFailures: nf, WriteType: wt})
					}
				}
			}
		case ErrFunctionFailure:
			for _, args := range [][]string{{}, {"int"}, {"text", "map<int, text>", ""}} {
				add(fmt.Sprintf("function_failure/args%d", len(args)), Error{Code: code, Keyspace: "ks", Function: "fn✓", ArgTypes: args})
			}
		case ErrCASWriteUnknown:
			add("cas_write_unknown", Error{Code: code, Consistency: Serial, Received: 1, BlockFor: 2})
			add("cas_write_unknown", Error{Code: code, Consistency: LocalSerial, Received: 0, BlockFor: 0})
		case ErrAlreadyExists:
			add("already_exists", Error{Code: code, Keyspace: "ks", Table: "tbl"})
			add("already_exists", Error{Code: code, Keyspace: "only_keyspace", Table: ""})
		case ErrUnprepared:
			for _, id := range [][]byte{{0xab}, {}, {1, 2, 3, 4, 5, 6, 7, 8, 9, 10, 11, 12, 13, 14, 15, 16}} {
				add(fmt.Sprintf("unprepared/id%d", len(id)), Error{Code: code, StatementID: id})
			}
		default:
			add(fmt.Sprintf("message_only/0x%04x", code), Error{Code: code})
		}
	}
}

func pagingVariants(o CatalogueOptions) [][]byte {
	p := [][]byte{{0x7f}}
	if o.Thorough {
		big := make([]byte, 300)
		for i := range big {
			big[i] = byte(i * 7)
		}
		p = append(p, []byte{}, big)
	}
	return p
}

type flagCombo struct{ global, more, noMeta bool }

func flagCombos(v int) []flagCombo {
	if v == 1 {
		return []flagCombo{{false, false, false}, {true, false, false}}
	}
	var out []flagCombo
	for _, g := range []bool{false, true} {
		for _, m := range []bool{false, true} {
			for _, n := range []bool{false, true} {
				out = append(out, flagCombo{g, m, n})
			}
		}
	}
	return out
}

// preparedCompanion is the PREPARED response a driver would have received for
// the statement whose execution returns these columns.
func preparedCompanion(v int, types []*Type, global bool) *Response {
	return &Response{Version: v, Stream: 1, Msg: ResultPrepared{ID: []byte{0xca, 0xfe, 0xba, 0xbe}, Bind: PreparedMetadata{},
		Result: rowsMeta(v, types, global, false, false, nil)}}
}

func emitRows(v int, class string, env Envelope, types []*Type, fc flagCombo, paging []byte, rows [][][]byte, typed bool, emit func(*Entry)) {
	m := rowsMeta(v, types, fc.global, fc.more, fc.noMeta, paging)
	e := &Entry{Class: class, Resp: apply(v, env, ResultRows{Meta: m, Rows: rows}), Typed: typed}
	if fc.noMeta {
		if v == 1 {
			return
		}
		e.Companion = preparedCompanion(v, types, fc.global)
	}
	emit(e)
}

func catalogueRows(v int, o CatalogueOptions, plain Envelope, envs []Envelope, emit func(*Entry)) {
	flags := flagCombos(v)
	pagings := pagingVariants(o)

	// R1: type sweep - one column of every type tree, 0..2 rows (normal; null + empty)
	for ti, t := range TypeTrees(v, o.Thorough) {
		for fi, fc := range flags {
			if !o.Thorough && fi != ti%len(flags) && fi != 0 {
				continue
			}
			types := []*Type{t}
			class := fmt.Sprintf("rows/types/%s/flags%d", shapeOf(t), fi)
			emitRows(v, class+"/rows0", plain, types, fc, pagings[0], nil, false, emit)
			emitRows(v, class+"/rows1", plain, types, fc, pagings[0], [][][]byte{{OpaqueCell(t, CellNormal, ti)}}, false, emit)
			emitRows(v, class+"/rows2", plain, types, fc, pagings[0], [][][]byte{{OpaqueCell(t, CellNull, ti)}, {OpaqueCell(t, CellEmpty, ti)}}, false, emit)
		}
	}

	// R2: metadata flags x 0..3 typed columns x 0..2 rows x cell kinds x envelopes
	tt := TypedTypes(v)
	var colSets [][]*Type
	colSets = append(colSets, nil)
	for _, a := range tt {
		colSets = append(colSets, []*Type{a})
	}
	for _, a := range tt {
		for _, b := range tt {
			colSets = append(colSets, []*Type{a, b})
		}
	}
	for _, a := range tt {
		for _, b := range tt {
			for _, c := range tt {
				colSets = append(colSets, []*Type{a, b, c})
			}
		}
	}
	n := 0
	for _, types := range colSets {
		nc := len(types)
		for fi, fc := range flags {
			for _, paging := range pagings {
				if !fc.more && len(paging) != 1 {
					continue
				}
				for nr := 0; nr <= 2; nr++ {
					cells := nc * nr
					// every assignment of null/empty/normal to the cells when there are at most 4 cells;
					// otherwise three rotating patterns (thorough: nine, every cell sees every kind
					// next to every kind of its neighbours)
					limit := 4
					if o.Thorough && (fi == 0 || fi == len(flags)-1) && len(paging) == 1 {
						limit = 6 // the full 3^6 product for 3 columns x 2 rows, without flags and with all flags
					}
					var assigns [][]int
					if cells <= limit {
						total := 1
						for i := 0; i < cells; i++ {
							total *= 3
						}
						for a := 0; a < total; a++ {
							ks := make([]int, cells)
							x := a
							for i := range ks {
								ks[i] = x % 3
								x /= 3
							}
							assigns = append(assigns, ks)
						}
					} else {
						for rot := 0; rot < 3; rot++ {
							ks := make([]int, cells)
							for i := range ks {
								ks[i] = (i + rot) % 3
							}
							assigns = append(assigns, ks)
						}
						if o.Thorough {
							for rot := 0; rot < 3; rot++ {
								ks, ks2 := make([]int, cells), make([]int, cells)
								for i := range ks {
									ks[i] = (i/2 + rot) % 3
									ks2[i] = (2*i + rot) % 3
								}
								assigns = append(assigns, ks, ks2)
							}
						}
					}
					for _, ks := range assigns {
						rows := make([][][]byte, nr)
						for r := 0; r < nr; r++ {
							rows[r] = make([][]byte, nc)
							for c := 0; c < nc; c++ {
								rows[r][c] = TypedCell(v, types[c], ks[r*nc+c], n+r*7+c)
							}
						}
						env := plain
						if len(envs) > 0 {
							env = envs[n%len(envs)]
						}
						n++
						class := fmt.Sprintf("rows/typed/cols%d/flags%d/rows%d", nc, fi, nr)
						emitRows(v, class, env, types, fc, paging, rows, true, emit)
					}
				}
			}
		}
	}

	// R3: the full envelope product on one rows shape per flag combination
	if len(tt) >= 2 {
		types := []*Type{tt[0], tt[len(tt)-1], tt[1]}
		for fi, fc := range flags {
			for _, env := range Envelopes(v, true) {
				rows := [][][]byte{
					{TypedCell(v, types[0], CellNormal, 1), TypedCell(v, types[1], CellNormal, 2), TypedCell(v, types[2], CellNormal, 3)},
					{TypedCell(v, types[0], CellNull, 4), TypedCell(v, types[1], CellEmpty, 5), TypedCell(v, types[2], CellNull, 6)},
				}
				emitRows(v, fmt.Sprintf("rows/envelopes/flags%d", fi), env, types, fc, pagings[0], rows, true, emit)
			}
		}
	}
}

func cataloguePrepared(v int, o CatalogueOptions, envs []Envelope, emit func(*Entry)) {
	tt := TypedTypes(v)
	ids := [][]byte{{0x01}, {0xde, 0xad, 0xbe, 0xef, 1, 2, 3, 4, 5, 6, 7, 8, 9, 10, 11, 12}}
	if o.Thorough {
		ids = append(ids, []byte{})
	}
	var colSets [][]*Type
	colSets = append(colSets, nil, []*Type{tt[0]}, []*Type{tt[1], tt[0]}, []*Type{tt[len(tt)-1], tt[2], tt[3]})
	if o.Thorough {
		for _, t := range TypeTrees(v, false) {
			colSets = append(colSets, []*Type{t}, []*Type{tt[0], t})
		}
	}
	n := 0
	for _, bind := range colSets {
		pkSets := [][]uint16{nil}
		if v >= 4 {
			switch len(bind) {
			case 0:
			case 1:
				pkSets = append(pkSets, []uint16{0})
			case 2:
				pkSets = append(pkSets, []uint16{0}, []uint16{1, 0})
			default:
				pkSets = append(pkSets, []uint16{2}, []uint16{2, 0, 1})
			}
		}
		for _, pk := range pkSets {
			for _, bg := range []bool{false, true} {
				resSets := [][]*Type{nil, {tt[1]}, {tt[0], tt[len(tt)-1]}}
				for ri, res := range resSets {
					for _, rg := range []bool{false, true} {
						for _, resNoMeta := range []bool{false, true} {
							if resNoMeta && (ri != 0 || v == 1) {
								continue // no_metadata result metadata = the statement returns no rows: 0 columns
							}
							if v == 1 && (ri != 0 || rg) {
								continue // v1 has no <result_metadata>
							}
							p := ResultPrepared{ID: ids[n%len(ids)]}
							p.Bind = PreparedMetadata{GlobalTableSpec: bg, PKIndexes: pk}
							if bg {
								p.Bind.GlobalKeyspace, p.Bind.GlobalTable = "bks", "btable"
								p.Bind.Columns = colSpecs("bks", "btable", bind)
							} else {
								p.Bind.Columns = colSpecs("", "", bind)
								for i := range p.Bind.Columns {
									p.Bind.Columns[i].Keyspace = fmt.Sprintf("bks%d", i)
									p.Bind.Columns[i].Table = fmt.Sprintf("bt%d", i)
								}
							}
							for i := range p.Bind.Columns {
								p.Bind.Columns[i].Name = fmt.Sprintf("b%d", i)
							}
							if v >= 2 {
								p.Result = rowsMeta(v, res, rg, false, resNoMeta, nil)
							}
							env := envs[n%len(envs)]
							n++
							class := fmt.Sprintf("prepared/bind%d/pk%d/bglobal=%v/res%d/rglobal=%v/nometa=%v", len(bind), len(pk), bg, len(res), rg, resNoMeta)
							emit(&Entry{Class: class, Resp: apply(v, env, p)})
						}
					}
				}
			}
		}
	}
}
