package frame

import (
	"bytes"
	"compress/gzip"
	"encoding/hex"
	"io"
	"os"
	"reflect"
	"strings"
	"testing"
)

func unhex(t *testing.T, s string) []byte {
	t.Helper()
	s = strings.NewReplacer(" ", "", "\n", "", "\t", "").Replace(s)
	b, err := hex.DecodeString(s)
	if err != nil {
		t.Fatal(err)
	}
	return b
}

// Hand-computed from the specifications.

func TestHeaderSpecExamples(t *testing.T) {
	// v2 request, flags 0, stream 127, QUERY, length 5
	b := AppendHeader(nil, Header{Version: 2, Stream: 127, Op: OpQuery, Length: 5})
	if !bytes.Equal(b, unhex(t, "02 00 7f 07 00000005")) {
		t.Fatalf("%x", b)
	}
	// v1 response stream -1 EVENT
	b = AppendHeader(nil, Header{Version: 1, Response: true, Stream: -1, Op: OpEvent, Length: 0x01020304})
	if !bytes.Equal(b, unhex(t, "81 00 ff 0c 01020304")) {
		t.Fatalf("%x", b)
	}
	// v3 request stream 128 needs two bytes: 0x0080
	b = AppendHeader(nil, Header{Version: 3, Flags: 0x02, Stream: 128, Op: OpExecute, Length: 0})
	if !bytes.Equal(b, unhex(t, "03 02 0080 0a 00000000")) {
		t.Fatalf("%x", b)
	}
	// v4 response stream 32767, v5 stream -1
	b = AppendHeader(nil, Header{Version: 4, Response: true, Flags: 0x0c, Stream: 32767, Op: OpResult, Length: 4})
	if !bytes.Equal(b, unhex(t, "84 0c 7fff 08 00000004")) {
		t.Fatalf("%x", b)
	}
	b = AppendHeader(nil, Header{Version: 5, Response: true, Flags: 0x10, Stream: -1, Op: OpEvent, Length: 0})
	if !bytes.Equal(b, unhex(t, "85 10 ffff 0c 00000000")) {
		t.Fatalf("%x", b)
	}
	for _, h := range []Header{
		{Version: 1, Stream: -128, Op: OpStartup, Length: 22},
		{Version: 2, Response: true, Flags: 3, Stream: 127, Op: OpSupported, Length: 1 << 20},
		{Version: 3, Stream: -32768, Op: OpBatch},
		{Version: 5, Flags: 0x10, Stream: 32767, Op: OpPrepare, Length: 7},
	} {
		enc := AppendHeader(nil, h)
		if len(enc) != HeaderSize(h.Version) {
			t.Fatalf("size %d", len(enc))
		}
		got, rest, err := ParseHeader(append(enc, 0xaa))
		if err != nil || got != h || len(rest) != 1 {
			t.Fatalf("round trip %+v -> %+v %v", h, got, err)
		}
	}
	if _, _, err := ParseHeader([]byte{0x06, 0, 0, 0, 0, 0, 0, 0, 0}); err == nil {
		t.Fatal("version 6 accepted")
	}
	if _, _, err := ParseHeader([]byte{0x03, 0, 0, 0, 0, 0, 0, 0}); err == nil {
		t.Fatal("short v3 header accepted")
	}
}

func TestNotations(t *testing.T) {
	w := &W{}
	w.String("ab")
	w.LongString("c")
	w.Bytes(nil)
	w.Bytes([]byte{})
	w.Bytes([]byte{9})
	w.ShortBytes([]byte{1, 2})
	w.StringList([]string{"x", ""})
	w.StringMap([]KV{{"k", "v"}})
	w.StringMultimap([]KL{{"k", []string{"a", "b"}}})
	w.BytesMap([]KB{{"p", nil}, {"q", []byte{7}}})
	w.Inet([]byte{10, 0, 0, 1}, 9042)
	w.InetAddr([]byte{0x20, 1, 0xd, 0xb8, 0, 0, 0, 0, 0, 0, 0, 0, 0, 0, 0, 1})
	w.Consistency(LocalOne)
	w.Long(-2)
	w.Int(-2)
	want := unhex(t, `0002 6162
		00000001 63
		ffffffff
		00000000
		00000001 09
		0002 0102
		0002 0001 78 0000
		0001 0001 6b 0001 76
		0001 0001 6b 0002 0001 61 0001 62
		0002 0001 70 ffffffff 0001 71 00000001 07
		04 0a000001 00002352
		10 20010db8000000000000000000000001
		000a
		fffffffffffffffe
		fffffffe`)
	if !bytes.Equal(w.B, want) {
		t.Fatalf("got  %x\nwant %x", w.B, want)
	}
	// spans point at the length fields
	if w.Spans[0] != (Span{0, 2, SpanStringLen}) || w.Spans[1] != (Span{4, 4, SpanLongStringLen}) {
		t.Fatalf("spans %+v", w.Spans[:2])
	}
	r := &R{B: w.B}
	if s, _ := r.String(); s != "ab" {
		t.Fatal(s)
	}
	if s, _ := r.LongString(); s != "c" {
		t.Fatal(s)
	}
	if b, _ := r.Bytes(); b != nil {
		t.Fatal("null")
	}
	if b, _ := r.Bytes(); b == nil || len(b) != 0 {
		t.Fatal("empty")
	}
	if b, _ := r.Bytes(); !bytes.Equal(b, []byte{9}) {
		t.Fatal("bytes")
	}
	if b, _ := r.ShortBytes(); !bytes.Equal(b, []byte{1, 2}) {
		t.Fatal("short bytes")
	}
	if l, _ := r.StringList(); !reflect.DeepEqual(l, []string{"x", ""}) {
		t.Fatal(l)
	}
	if m, _ := r.StringMap(); !reflect.DeepEqual(m, []KV{{"k", "v"}}) {
		t.Fatal(m)
	}
	if m, _ := r.StringMultimap(); !reflect.DeepEqual(m, []KL{{"k", []string{"a", "b"}}}) {
		t.Fatal(m)
	}
	if m, _ := r.BytesMap(); !reflect.DeepEqual(m, []KB{{"p", nil}, {"q", []byte{7}}}) {
		t.Fatal(m)
	}
	if a, p, _ := r.Inet(); !bytes.Equal(a, []byte{10, 0, 0, 1}) || p != 9042 {
		t.Fatal(a, p)
	}
	if a, _ := r.InetAddr(); len(a) != 16 || a[15] != 1 {
		t.Fatal(a)
	}
	if c, _ := r.Short(); c != LocalOne {
		t.Fatal(c)
	}
	if v, _ := r.Long(); v != -2 {
		t.Fatal(v)
	}
	if v, _ := r.Int(); v != -2 {
		t.Fatal(v)
	}
	if err := r.End(); err != nil {
		t.Fatal(err)
	}
	// every strict prefix fails somewhere with ErrShort (no panic)
	for n := 0; n < len(w.B); n++ {
		r := &R{B: w.B[:n]}
		var err error
		steps := []func() error{
			func() error { _, e := r.String(); return e }, func() error { _, e := r.LongString(); return e },
			func() error { _, e := r.Bytes(); return e }, func() error { _, e := r.Bytes(); return e },
			func() error { _, e := r.Bytes(); return e }, func() error { _, e := r.ShortBytes(); return e },
			func() error { _, e := r.StringList(); return e }, func() error { _, e := r.StringMap(); return e },
			func() error { _, e := r.StringMultimap(); return e }, func() error { _, e := r.BytesMap(); return e },
			func() error { _, _, e := r.Inet(); return e }, func() error { _, e := r.InetAddr(); return e },
			func() error { _, e := r.Short(); return e }, func() error { _, e := r.Long(); return e },
			func() error { _, e := r.Int(); return e },
		}
		for _, s := range steps {
			if err = s(); err != nil {
				break
			}
		}
		if err == nil {
			t.Fatalf("prefix %d decoded completely", n)
		}
	}
	if _, err := (&R{B: []byte{5, 1, 2, 3, 4, 5}}).InetAddr(); err == nil {
		t.Fatal("inet size 5 accepted")
	}
}

func i32(v int32) *int32   { return &v }
func i64(v int64) *int64   { return &v }
func u16(v uint16) *uint16 { return &v }
func str(v string) *string { return &v }

func TestRequestSpecExamples(t *testing.T) {
	type tc struct {
		name string
		hex  string
		want interface{}
		hdr  Header
		pay  []KB
	}
	cases := []tc{
		{"v1 STARTUP", `01 00 01 01 00000016  0001 000b 43514c5f56455253494f4e 0005 332e302e30`,
			&Startup{Options: []KV{{"CQL_VERSION", "3.0.0"}}}, Header{Version: 1, Stream: 1, Op: OpStartup, Length: 22}, nil},
		{"v3 OPTIONS", `03 00 0080 05 00000000`, &Options{}, Header{Version: 3, Stream: 128, Op: OpOptions}, nil},
		{"v1 QUERY", `01 02 05 07 0000000e  00000008 53454c454354202a 0004`,
			&Query{Statement: "SELECT *", Params: QueryParams{Consistency: Quorum}}, Header{Version: 1, Flags: 2, Stream: 5, Op: OpQuery, Length: 14}, nil},
		{"v2 QUERY all flags", `02 00 7f 07 0000001f  00000001 51  0001 1f
			0002 00000001 aa ffffffff   00000064  00000002 0102  0009`,
			&Query{Statement: "Q", Params: QueryParams{Consistency: One, Flags: 0x1f, SkipMetadata: true,
				Values: []Value{{Kind: ValNormal, Bytes: []byte{0xaa}}, {Kind: ValNull}}, PageSize: i32(100), HasPagingState: true,
				PagingState: []byte{1, 2}, SerialConsistency: u16(LocalSerial)}},
			Header{Version: 2, Stream: 127, Op: OpQuery, Length: 0x1f}, nil},
		{"v3 QUERY named+timestamp", `03 00 0001 07 00000022  00000001 51  0006 61
			0001 0002 6b31 00000000   0000000000000005`,
			nil, Header{}, nil}, // placeholder fixed below
		{"v4 EXECUTE unset + payload", `04 04 7fff 0a 00000017  0001 0001 70 00000001 09   0002 abcd  0005 01  0001 fffffffe`,
			&Execute{ID: []byte{0xab, 0xcd}, Params: QueryParams{Consistency: All, Flags: 1, Values: []Value{{Kind: ValUnset}}}},
			Header{Version: 4, Flags: 4, Stream: 32767, Op: OpExecute, Length: 0x17}, []KB{{"p", []byte{9}}}},
		{"v1 EXECUTE", `01 00 01 0a 00000010  0001 ee  0002 00000001 07 ffffffff  0001`,
			&Execute{ID: []byte{0xee}, Params: QueryParams{Consistency: One, Values: []Value{{Kind: ValNormal, Bytes: []byte{7}}, {Kind: ValNull}}}},
			Header{Version: 1, Stream: 1, Op: OpExecute, Length: 16}, nil},
		{"v5 QUERY keyspace", `05 10 0001 07 0000000f  00000001 51  0001 00000080  0002 6b73`,
			&Query{Statement: "Q", Params: QueryParams{Consistency: One, Flags: 0x80, Keyspace: str("ks")}},
			Header{Version: 5, Flags: 0x10, Stream: 1, Op: OpQuery, Length: 0x0f}, nil},
		{"v5 PREPARE keyspace", `05 10 0001 09 0000000d  00000001 51 00000001 0002 6b73`,
			&Prepare{Statement: "Q", HasFlags: true, Flags: 1, Keyspace: str("ks")}, Header{Version: 5, Flags: 0x10, Stream: 1, Op: OpPrepare, Length: 13}, nil},
		{"v4 PREPARE", `04 00 0001 09 00000005  00000001 51`, &Prepare{Statement: "Q"}, Header{Version: 4, Stream: 1, Op: OpPrepare, Length: 5}, nil},
		{"v2 BATCH", `02 00 01 0d 00000019  01 0002  00 00000001 51 0000   01 0002 abcd 0001 00000001 05   0006`,
			&Batch{Type: 1, Consistency: LocalQuorum, Entries: []BatchEntry{{Statement: "Q", Values: []Value{}},
				{Prepared: true, ID: []byte{0xab, 0xcd}, Values: []Value{{Kind: ValNormal, Bytes: []byte{5}}}}}},
			Header{Version: 2, Stream: 1, Op: OpBatch, Length: 0x19}, nil},
		{"v3 BATCH serial+ts", `03 00 0001 0d 00000010  02 0000 0004 30 0008 fffffffffffffff6`,
			&Batch{Type: 2, Consistency: Quorum, Entries: []BatchEntry{}, HasFlags: true, Flags: 0x30, SerialConsistency: u16(Serial), Timestamp: i64(-10)},
			Header{Version: 3, Stream: 1, Op: OpBatch, Length: 16}, nil},
		{"v5 BATCH", `05 10 0001 0d 00000009  00 0000 000a 00000000`,
			&Batch{Type: 0, Consistency: LocalOne, Entries: []BatchEntry{}, HasFlags: true}, Header{Version: 5, Flags: 0x10, Stream: 1, Op: OpBatch, Length: 9}, nil},
		{"v2 REGISTER", `02 00 01 0b 0000000f  0001 000b 5354415455535f4348414e4745 `,
			nil, Header{}, nil}, // fixed below (length check)
		{"v2 AUTH_RESPONSE", `02 00 01 0f 00000006  00000002 0061`, &AuthResponse{Token: []byte{0, 0x61}}, Header{Version: 2, Stream: 1, Op: OpAuthResponse, Length: 6}, nil},
		{"v2 AUTH_RESPONSE null", `02 00 01 0f 00000004  ffffffff`, &AuthResponse{}, Header{Version: 2, Stream: 1, Op: OpAuthResponse, Length: 4}, nil},
	}
	cases[4].want = &Query{Statement: "Q", Params: QueryParams{Consistency: LocalQuorum, Flags: 0x61, Named: true,
		Values: []Value{{Name: "k1", Kind: ValNormal, Bytes: []byte{}}}, Timestamp: i64(5)}}
	cases[4].hex = `03 00 0001 07 0000001a  00000001 51  0006 61  0001 0002 6b31 00000000   0000000000000005`
	cases[4].hdr = Header{Version: 3, Stream: 1, Op: OpQuery, Length: 0x1a}
	cases[13].hex = `02 00 01 0b 00000011  0001 000d 5354415455535f4348414e4745`
	cases[13].want = &Register{Events: []string{"STATUS_CHANGE"}}
	cases[13].hdr = Header{Version: 2, Stream: 1, Op: OpRegister, Length: 17}

	for _, c := range cases {
		b := unhex(t, c.hex)
		req, err := DecodeRequest(b)
		if err != nil {
			t.Errorf("%s: %v", c.name, err)
			continue
		}
		if req.Header != c.hdr {
			t.Errorf("%s: header %+v want %+v", c.name, req.Header, c.hdr)
		}
		if !reflect.DeepEqual(req.Msg, c.want) {
			t.Errorf("%s:\n got  %#v\n want %#v", c.name, req.Msg, c.want)
		}
		if !reflect.DeepEqual(req.CustomPayload, c.pay) {
			t.Errorf("%s: payload %v", c.name, req.CustomPayload)
		}
		// missing bytes: every strict prefix of the body (with a fixed-up length) must fail;
		// trailing byte must fail
		hs := HeaderSize(req.Header.Version)
		for n := hs; n < len(b); n++ {
			h := req.Header
			if _, err := DecodeRequestBody(h, b[hs:n]); err == nil {
				t.Errorf("%s: body prefix of %d bytes accepted", c.name, n-hs)
			}
		}
		if _, err := DecodeRequestBody(req.Header, append(append([]byte{}, b[hs:]...), 0)); err == nil {
			t.Errorf("%s: trailing byte accepted", c.name)
		}
	}
}

func TestRequestRejections(t *testing.T) {
	bad := map[string]string{
		"response direction":        `82 00 01 05 00000000`,
		"BATCH in v1":               `01 00 01 0d 00000005 00 0000 0001`,
		"AUTH_RESPONSE in v1":       `01 00 01 0f 00000004 ffffffff`,
		"CREDENTIALS in v2":         `02 00 01 04 00000002 0000`,
		"payload flag in v3":        `03 04 0001 05 00000000`,
		"beta flag in v4":           `04 10 0001 05 00000000`,
		"v5 without beta":           `05 00 0001 05 00000000`,
		"length mismatch":           `03 00 0001 05 00000001`,
		"v2 timestamp flag":         `02 00 01 07 00000010 00000001 51 0001 20 0000000000000001`,
		"v2 names flag":             `02 00 01 07 00000008 00000001 51 0001 40`,
		"v4 keyspace flag":          `04 00 0001 07 0000000c 00000001 51 0001 80 0002 6b73`,
		"v4 4-byte flags":           `04 00 0001 07 0000000b 00000001 51 0001 00000000`,
		"v5 1-byte flags":           `05 10 0001 07 00000008 00000001 51 0001 00`,
		"value length -3 in v4":     `04 00 0001 07 0000000e 00000001 51 0001 01 0001 fffffffd`,
		"bad consistency":           `03 00 0001 07 00000008 00000001 51 000b 00`,
		"serial consistency QUORUM": `03 00 0001 07 0000000a 00000001 51 0001 10 0004`,
		"batch type 3":              `03 00 0001 0d 00000006 03 0000 0001 00`,
		"batch kind 2":              `03 00 0001 0d 0000000c 00 0001 02 00000000 0000 0001 00`,
		"batch names flag":          `03 00 0001 0d 00000006 00 0000 0001 40`,
		"v2 batch with flags byte":  `02 00 01 0d 00000006 00 0000 0001 00`,
		"STARTUP no CQL_VERSION":    `03 00 0001 01 00000002 0000`,
		"STARTUP compressed flag":   `03 01 0001 01 00000016 0001 000b 43514c5f56455253494f4e 0005 332e302e30`,
		"names without values":      `03 00 0001 07 00000008 00000001 51 0001 40`,
		"v1 query with flags":       `01 00 01 07 00000008 00000001 51 0001 00`,
		"negative long string":      `03 00 0001 09 00000004 ffffffff`,
		"response opcode":           `03 00 0001 02 00000000`,
	}
	for name, h := range bad {
		b := unhex(t, h)
		hd, body, err := SplitFrame(b)
		if err == nil {
			hd.Flags &^= 0 // keep flags as they are
			_, err = DecodeRequestBody(hd, body)
		}
		if err == nil {
			t.Errorf("%s: accepted", name)
		}
	}
	// unset (-2) before v4 is a [bytes] with negative length: null
	req, err := DecodeRequest(unhex(t, `03 00 0001 07 0000000e 00000001 51 0001 01 0001 fffffffe`))
	if err != nil || req.Msg.(*Query).Params.Values[0].Kind != ValNull {
		t.Fatalf("v3 -2: %v %+v", err, req)
	}
}

func TestResponseSpecExamples(t *testing.T) {
	trace := [16]byte{1, 2, 3, 4, 5, 6, 7, 8, 9, 10, 11, 12, 13, 14, 15, 16}
	c5 := uint16(5)
	cases := []struct {
		name string
		resp Response
		hex  string
	}{
		{"v1 READY", Response{Version: 1, Stream: 1, Msg: Ready{}}, `81 00 01 02 00000000`},
		{"v3 AUTHENTICATE", Response{Version: 3, Stream: 128, Msg: Authenticate{"a.B"}}, `83 00 0080 03 00000005 0003 612e42`},
		{"v2 AUTH_CHALLENGE null", Response{Version: 2, Stream: 2, Msg: AuthChallenge{}}, `82 00 02 0e 00000004 ffffffff`},
		{"v4 AUTH_SUCCESS traced", Response{Version: 4, Stream: 2, TraceID: &trace, Msg: AuthSuccess{[]byte{}}},
			`84 02 0002 10 00000014 0102030405060708090a0b0c0d0e0f10 00000000`},
		{"v2 SUPPORTED", Response{Version: 2, Stream: 0, Msg: Supported{[]KL{{"COMPRESSION", []string{"snappy", "lz4"}}}}},
			`82 00 00 06 0000001e 0001 000b 434f4d5052455353494f4e 0002 0006 736e61707079 0003 6c7a34`},
		{"v4 void warn+payload", Response{Version: 4, Stream: 1, Warnings: []string{"w"}, Payload: []KB{{"k", nil}}, Msg: ResultVoid{}},
			`84 0c 0001 08 00000012  0001 0001 77  0001 0001 6b ffffffff  00000001`},
		{"v3 set_keyspace", Response{Version: 3, Stream: 1, Msg: ResultSetKeyspace{"ks"}}, `83 00 0001 08 00000008 00000003 0002 6b73`},
		{"v2 rows", Response{Version: 2, Stream: 1, Msg: ResultRows{
			Meta: RowsMetadata{GlobalTableSpec: true, HasMorePages: true, PagingState: []byte{0xee}, GlobalKeyspace: "k", GlobalTable: "t", ColumnCount: 2,
				Columns: []ColumnSpec{{"k", "t", "a", Leaf(TInt)}, {"k", "t", "b", ListOf(Leaf(TVarchar))}}},
			Rows: [][][]byte{{IntCell(1), nil}}}},
			`82 00 01 08 00000033  00000002  00000003 00000002  00000001 ee  0001 6b 0001 74
			 0001 61 0009   0001 62 0020 000d    00000001   00000004 00000001  ffffffff`},
		{"v2 rows no_metadata", Response{Version: 2, Stream: 1, Msg: ResultRows{Meta: RowsMetadata{NoMetadata: true, ColumnCount: 1}, Rows: [][][]byte{{[]byte{}}}}},
			`82 00 01 08 00000014  00000002  00000004 00000001  00000001  00000000`},
		{"v3 rows udt tuple", Response{Version: 3, Stream: 1, Msg: ResultRows{Meta: RowsMetadata{ColumnCount: 1,
			Columns: []ColumnSpec{{"k", "t", "c", MapOf(TupleOf(Leaf(TInt), Leaf(TBlob)), UDTOf("k", "u", UDTField{"f", CustomType("X")}))}}}}},
			`83 00 0001 08 00000035  00000002  00000000 00000001   0001 6b 0001 74 0001 63
			 0021  0031 0002 0009 0003   0030 0001 6b 0001 75 0001 0001 66 0000 0001 58   00000000`},
		{"v1 prepared", Response{Version: 1, Stream: 1, Msg: ResultPrepared{ID: []byte{1, 2}, Bind: PreparedMetadata{Columns: []ColumnSpec{{"k", "t", "c", Leaf(TInt)}}}}},
			`81 00 01 08 0000001b  00000004 0002 0102  00000000 00000001  0001 6b 0001 74 0001 63 0009`},
		{"v4 prepared", Response{Version: 4, Stream: 1, Msg: ResultPrepared{ID: []byte{1}, Bind: PreparedMetadata{GlobalTableSpec: true, GlobalKeyspace: "k", GlobalTable: "t",
			PKIndexes: []uint16{1, 0}, Columns: []ColumnSpec{{"k", "t", "a", Leaf(TInt)}, {"k", "t", "b", Leaf(TDate)}}},
			Result: RowsMetadata{NoMetadata: true}}},
			`84 00 0001 08 0000002f  00000004 0001 01   00000001 00000002 00000002 0001 0000  0001 6b 0001 74  0001 61 0009  0001 62 0011
			 00000004 00000000`},
		{"v2 schema_change", Response{Version: 2, Stream: 1, Msg: ResultSchemaChange{SchemaChange{Change: "CREATED", Target: "KEYSPACE", Keyspace: "ks"}}},
			`82 00 01 08 00000013  00000005 0007 43524541544544 0002 6b73 0000`},
		{"v4 schema_change function", Response{Version: 4, Stream: 1, Msg: ResultSchemaChange{SchemaChange{Change: "DROPPED", Target: "FUNCTION", Keyspace: "k", Name: "f", Args: []string{"int"}}}},
			`84 00 0001 08 00000024  00000005 0007 44524f50504544 0008 46554e4354494f4e 0001 6b 0001 66 0001 0003 696e74`},
		{"v3 event status", Response{Version: 3, Stream: -1, Msg: EventStatusChange{"UP", []byte{127, 0, 0, 1}, 9042}},
			`83 00 ffff 0c 0000001c  000d 5354415455535f4348414e4745 0002 5550 04 7f000001 00002352`},
		{"v3 event schema type", Response{Version: 3, Stream: -1, Msg: EventSchemaChange{SchemaChange{Change: "UPDATED", Target: "TYPE", Keyspace: "k", Name: "u"}}},
			`83 00 ffff 0c 00000024  000d 534348454d415f4348414e4745 0007 55504441544544 0004 54595045 0001 6b 0001 75`},
		{"v3 error unavailable", Response{Version: 3, Stream: 1, Msg: Error{Code: ErrUnavailable, Message: "m", Consistency: Quorum, Required: 2, Alive: 1}},
			`83 00 0001 00 00000011  00001000 0001 6d 0004 00000002 00000001`},
		{"v3 error write timeout", Response{Version: 3, Stream: 1, Msg: Error{Code: ErrWriteTimeout, Message: "", Consistency: One, Received: 0, BlockFor: 1, WriteType: "SIMPLE"}},
			`83 00 0001 00 00000018  00001100 0000 0001 00000000 00000001 0006 53494d504c45`},
		{"v5 error write timeout CAS", Response{Version: 5, Stream: 1, Msg: Error{Code: ErrWriteTimeout, Message: "", Consistency: Serial, Received: 0, BlockFor: 1, WriteType: "CAS", Contentions: &c5}},
			`85 10 0001 00 00000017  00001100 0000 0008 00000000 00000001 0003 434153 0005`},
		{"v4 error read failure", Response{Version: 4, Stream: 1, Msg: Error{Code: ErrReadFailure, Message: "", Consistency: One, Received: 1, BlockFor: 2, NumFailures: 1, DataPresent: 1}},
			`84 00 0001 00 00000015  00001300 0000 0001 00000001 00000002 00000001 01`},
		{"v5 error write failure", Response{Version: 5, Stream: 1, Msg: Error{Code: ErrWriteFailure, Message: "", Consistency: One, Received: 1, BlockFor: 2,
			ReasonMap: []Reason{{[]byte{10, 0, 0, 2}, 3}}, WriteType: "BATCH"}},
			`85 10 0001 00 00000022  00001500 0000 0001 00000001 00000002 00000001 04 0a000002 0003 0005 4241544348`},
		{"v4 error function failure", Response{Version: 4, Stream: 1, Msg: Error{Code: ErrFunctionFailure, Message: "x", Keyspace: "k", Function: "f", ArgTypes: []string{"int", "text"}}},
			`84 00 0001 00 0000001a  00001400 0001 78 0001 6b 0001 66 0002 0003 696e74 0004 74657874`},
		{"v1 error already exists", Response{Version: 1, Stream: 1, Msg: Error{Code: ErrAlreadyExists, Message: "", Keyspace: "k", Table: ""}},
			`81 00 01 00 0000000b  00002400 0000 0001 6b 0000`},
		{"v2 error unprepared", Response{Version: 2, Stream: 1, Msg: Error{Code: ErrUnprepared, Message: "", StatementID: []byte{0xab}}},
			`82 00 01 00 00000009  00002500 0000 0001 ab`},
		{"v5 error cas unknown", Response{Version: 5, Stream: 1, Msg: Error{Code: ErrCASWriteUnknown, Message: "", Consistency: Serial, Received: 1, BlockFor: 2}},
			`85 10 0001 00 00000010  00001700 0000 0008 00000001 00000002`},
	}
	for _, c := range cases {
		enc, err := Encode(&c.resp)
		if err != nil {
			t.Errorf("%s: %v", c.name, err)
			continue
		}
		want := unhex(t, c.hex)
		if got := enc.Bytes(); !bytes.Equal(got, want) {
			t.Errorf("%s:\n got  %x\n want %x", c.name, got, want)
			continue
		}
		back, err := DecodeResponse(want)
		if err != nil {
			t.Errorf("%s: decode: %v", c.name, err)
			continue
		}
		enc2, err := Encode(back)
		if err != nil || !bytes.Equal(enc2.Bytes(), want) {
			t.Errorf("%s: decode -> re-encode differs: %v", c.name, err)
		}
		// spans: every span lies inside the frame and the field holds a plausible count
		for _, s := range enc.FrameSpans() {
			if s.Off < 0 || s.Off+s.Len > len(want) || (s.Len != 1 && s.Len != 2 && s.Len != 4) {
				t.Errorf("%s: bad span %+v", c.name, s)
			}
		}
		// no strict prefix of the body decodes
		hs := HeaderSize(c.resp.Version)
		for n := 0; n < len(enc.Body); n++ {
			if _, err := DecodeResponseBody(enc.Header, enc.Body[:n]); err == nil {
				t.Errorf("%s: body prefix %d accepted", c.name, n)
			}
		}
		_ = hs
	}
}

func TestNotExpressible(t *testing.T) {
	bad := []Response{
		{Version: 3, Stream: 1, Warnings: []string{}, Msg: Ready{}},
		{Version: 3, Stream: 1, Payload: []KB{}, Msg: Ready{}},
		{Version: 1, Stream: 1, Msg: AuthSuccess{}},
		{Version: 2, Stream: 128, Msg: Ready{}},
		{Version: 1, Stream: 1, Msg: ResultRows{Meta: RowsMetadata{HasMorePages: true}}},
		{Version: 3, Stream: 1, Msg: ResultSchemaChange{SchemaChange{Change: "CREATED", Target: "FUNCTION", Keyspace: "k", Name: "f"}}},
		{Version: 2, Stream: 1, Msg: ResultSchemaChange{SchemaChange{Change: "CREATED", Target: "TYPE", Keyspace: "k", Name: "f"}}},
		{Version: 3, Stream: 1, Msg: Error{Code: ErrReadFailure}},
		{Version: 4, Stream: 1, Msg: Error{Code: ErrCASWriteUnknown}},
		{Version: 2, Stream: 1, Msg: ResultRows{Meta: RowsMetadata{ColumnCount: 1, Columns: []ColumnSpec{{"k", "t", "c", TupleOf(Leaf(TInt))}}}}},
		{Version: 3, Stream: 1, Msg: ResultRows{Meta: RowsMetadata{ColumnCount: 1, Columns: []ColumnSpec{{"k", "t", "c", Leaf(TDate)}}}}},
		{Version: 3, Stream: 1, Msg: ResultRows{Meta: RowsMetadata{ColumnCount: 1, Columns: []ColumnSpec{{"k", "t", "c", Leaf(TText)}}}}},
		{Version: 3, Stream: 1, Msg: ResultPrepared{Bind: PreparedMetadata{PKIndexes: []uint16{0}}}},
	}
	for i, r := range bad {
		if _, err := Encode(&r); err == nil {
			t.Errorf("case %d encoded", i)
		}
	}
}

// The recorded RESULT body of /repo/testdata/frames: decode -> re-encode identity.
func TestRecordedFrame(t *testing.T) {
	f, err := os.Open("/repo/testdata/frames/bench_parse_result.gz")
	if err != nil {
		t.Skip(err)
	}
	defer f.Close()
	z, err := gzip.NewReader(f)
	if err != nil {
		t.Fatal(err)
	}
	body, err := io.ReadAll(z)
	if err != nil {
		t.Fatal(err)
	}
	for _, v := range []int{2, 3, 4} {
		h := Header{Version: v, Response: true, Stream: 1, Op: OpResult, Length: int32(len(body))}
		resp, err := DecodeResponseBody(h, body)
		if err != nil {
			t.Fatalf("v%d: %v", v, err)
		}
		rows := resp.Msg.(ResultRows)
		if len(rows.Rows) != 88 || rows.Meta.ColumnCount != 8 || !rows.Meta.GlobalTableSpec || rows.Meta.GlobalKeyspace != "system" ||
			rows.Meta.GlobalTable != "schema_columns" || rows.Meta.Columns[2].Name != "component_index" || rows.Meta.Columns[2].Type.ID != TInt {
			t.Fatalf("v%d: unexpected content %+v", v, rows.Meta)
		}
		enc, err := Encode(resp)
		if err != nil {
			t.Fatal(err)
		}
		if !bytes.Equal(enc.Body, body) {
			t.Fatalf("v%d: re-encoded body differs", v)
		}
	}
}
