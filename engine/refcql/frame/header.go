package frame

import "fmt"

// Opcodes (section 2.4 of the specifications).
const (
	OpError         byte = 0x00
	OpStartup       byte = 0x01
	OpReady         byte = 0x02
	OpAuthenticate  byte = 0x03
	OpCredentials   byte = 0x04 // v1 only
	OpOptions       byte = 0x05
	OpSupported     byte = 0x06
	OpQuery         byte = 0x07
	OpResult        byte = 0x08
	OpPrepare       byte = 0x09
	OpExecute       byte = 0x0A
	OpRegister      byte = 0x0B
	OpEvent         byte = 0x0C
	OpBatch         byte = 0x0D // v2+
	OpAuthChallenge byte = 0x0E // v2+
	OpAuthResponse  byte = 0x0F // v2+
	OpAuthSuccess   byte = 0x10 // v2+
)

// Header flags (section 2.2).
const (
	FlagCompression   byte = 0x01
	FlagTracing       byte = 0x02
	FlagCustomPayload byte = 0x04 // v4+
	FlagWarning       byte = 0x08 // v4+, responses only
	FlagBeta          byte = 0x10 // v5
)

// OpName returns the specification's name of an opcode.
func OpName(op byte) string {
	names := [...]string{"ERROR", "STARTUP", "READY", "AUTHENTICATE", "CREDENTIALS", "OPTIONS", "SUPPORTED",
		"QUERY", "RESULT", "PREPARE", "EXECUTE", "REGISTER", "EVENT", "BATCH", "AUTH_CHALLENGE", "AUTH_RESPONSE", "AUTH_SUCCESS"}
	if int(op) < len(names) {
		return names[op]
	}
	return fmt.Sprintf("OP_0x%02x", op)
}

// OpDefined reports whether the opcode exists in the given protocol version.
func OpDefined(version int, op byte) bool {
	switch {
	case op > OpAuthSuccess:
		return false
	case op == OpCredentials:
		return version == 1
	case op >= OpBatch:
		return version >= 2
	}
	return true
}

// OpIsRequest reports whether the opcode is a client-to-server message.
func OpIsRequest(op byte) bool {
	switch op {
	case OpStartup, OpCredentials, OpOptions, OpQuery, OpPrepare, OpExecute, OpRegister, OpBatch, OpAuthResponse:
		return true
	}
	return false
}

// Header is a decoded frame header.
type Header struct {
	Version  int  // 1..5 (low 7 bits of the version byte)
	Response bool // direction bit (0x80)
	Flags    byte
	Stream   int // signed: -128..127 in v1/v2, -32768..32767 from v3
	Op       byte
	Length   int32 // body length as written on the wire
}

// HeaderSize is 8 for v1/v2 and 9 from v3 on.
func HeaderSize(version int) int {
	if version >= 3 {
		return 9
	}
	return 8
}

// StreamRange gives the stream ids expressible in a version.
func StreamRange(version int) (lo, hi int) {
	if version >= 3 {
		return -32768, 32767
	}
	return -128, 127
}

// AppendHeader encodes h. It panics if the stream id is not expressible.
func AppendHeader(dst []byte, h Header) []byte {
	if h.Version < 1 || h.Version > 127 {
		panic("frame: version out of range")
	}
	lo, hi := StreamRange(h.Version)
	if h.Stream < lo || h.Stream > hi {
		panic(fmt.Sprintf("frame: stream %d not expressible in v%d", h.Stream, h.Version))
	}
	v := byte(h.Version)
	if h.Response {
		v |= 0x80
	}
	dst = append(dst, v, h.Flags)
	if h.Version >= 3 {
		s := uint16(int16(h.Stream))
		dst = append(dst, byte(s>>8), byte(s))
	} else {
		dst = append(dst, byte(int8(h.Stream)))
	}
	dst = append(dst, h.Op)
	l := uint32(h.Length)
	return append(dst, byte(l>>24), byte(l>>16), byte(l>>8), byte(l))
}

// ParseHeader decodes a header from the front of b and returns the rest. The
// protocol version is taken from the first byte; versions outside 1..5 are an
// error.
func ParseHeader(b []byte) (Header, []byte, error) {
	var h Header
	if len(b) < 1 {
		return h, nil, fmt.Errorf("%w: empty frame", ErrShort)
	}
	h.Version = int(b[0] & 0x7f)
	h.Response = b[0]&0x80 != 0
	if h.Version < 1 || h.Version > 5 {
		return h, nil, fmt.Errorf("frame: unsupported protocol version %d", h.Version)
	}
	n := HeaderSize(h.Version)
	if len(b) < n {
		return h, nil, fmt.Errorf("%w: header needs %d bytes, have %d", ErrShort, n, len(b))
	}
	h.Flags = b[1]
	p := b[2:]
	if h.Version >= 3 {
		h.Stream = int(int16(uint16(p[0])<<8 | uint16(p[1])))
		p = p[2:]
	} else {
		h.Stream = int(int8(p[0]))
		p = p[1:]
	}
	h.Op = p[0]
	h.Length = int32(uint32(p[1])<<24 | uint32(p[2])<<16 | uint32(p[3])<<8 | uint32(p[4]))
	return h, b[n:], nil
}

// SplitFrame parses the header of a complete single frame and checks that the
// length field equals the number of bytes that follow. It returns the (still
// possibly compressed) body.
func SplitFrame(b []byte) (Header, []byte, error) {
	h, body, err := ParseHeader(b)
	if err != nil {
		return h, nil, err
	}
	if h.Length < 0 {
		return h, nil, fmt.Errorf("frame: negative body length %d", h.Length)
	}
	if int(h.Length) != len(body) {
		return h, nil, fmt.Errorf("frame: header length %d but %d body bytes follow", h.Length, len(body))
	}
	return h, body, nil
}

// ValidHeaderFlags returns the flag bits defined for a version and direction.
func ValidHeaderFlags(version int, response bool) byte {
	f := FlagCompression | FlagTracing
	if version >= 4 {
		f |= FlagCustomPayload
		if response {
			f |= FlagWarning
		}
	}
	if version >= 5 {
		f |= FlagBeta
	}
	return f
}

// Assemble builds a whole frame from a header and an already final body
// (compressed by the caller if FlagCompression is set); Length is overwritten
// with len(body).
func Assemble(h Header, body []byte) []byte {
	h.Length = int32(len(body))
	out := AppendHeader(make([]byte, 0, 9+len(body)), h)
	return append(out, body...)
}
