package frame

import (
	"fmt"
	"strings"
)

// Type option ids (section 4.2.5.2, "<type>" of a column specification).
const (
	TCustom    uint16 = 0x0000
	TAscii     uint16 = 0x0001
	TBigint    uint16 = 0x0002
	TBlob      uint16 = 0x0003
	TBoolean   uint16 = 0x0004
	TCounter   uint16 = 0x0005
	TDecimal   uint16 = 0x0006
	TDouble    uint16 = 0x0007
	TFloat     uint16 = 0x0008
	TInt       uint16 = 0x0009
	TText      uint16 = 0x000A // v1, v2 only
	TTimestamp uint16 = 0x000B
	TUUID      uint16 = 0x000C
	TVarchar   uint16 = 0x000D
	TVarint    uint16 = 0x000E
	TTimeuuid  uint16 = 0x000F
	TInet      uint16 = 0x0010
	TDate      uint16 = 0x0011 // v4+
	TTime      uint16 = 0x0012 // v4+
	TSmallint  uint16 = 0x0013 // v4+
	TTinyint   uint16 = 0x0014 // v4+
	TDuration  uint16 = 0x0015 // v5
	TList      uint16 = 0x0020
	TMap       uint16 = 0x0021
	TSet       uint16 = 0x0022
	TUDT       uint16 = 0x0030 // v3+
	TTuple     uint16 = 0x0031 // v3+
)

// Type is an [option] describing a CQL type, recursively.
type Type struct {
	ID     uint16
	Custom string  // TCustom: the class name
	Key    *Type   // TMap
	Elem   *Type   // TList, TSet, TMap (value type)
	Elems  []*Type // TTuple
	// TUDT
	UDTKeyspace string
	UDTName     string
	Fields      []UDTField
}

type UDTField struct {
	Name string
	Type *Type
}

// TypeIDDefined reports whether a type option id exists in a protocol version.
func TypeIDDefined(version int, id uint16) bool {
	switch {
	case id == TText:
		return version <= 2
	case id <= TInet:
		return true
	case id >= TDate && id <= TTinyint:
		return version >= 4
	case id == TDuration:
		return version >= 5
	case id == TList || id == TMap || id == TSet:
		return true
	case id == TUDT || id == TTuple:
		return version >= 3
	}
	return false
}

// LeafTypeIDs lists the non-parameterised type ids of a version, TCustom excluded.
func LeafTypeIDs(version int) []uint16 {
	var out []uint16
	for id := TAscii; id <= TDuration; id++ {
		if TypeIDDefined(version, id) {
			out = append(out, id)
		}
	}
	return out
}

// Depth: a leaf has depth 0, list<leaf> depth 1, ...
func (t *Type) Depth() int {
	d := 0
	up := func(c *Type) {
		if c != nil && c.Depth()+1 > d {
			d = c.Depth() + 1
		}
	}
	up(t.Key)
	up(t.Elem)
	for _, e := range t.Elems {
		up(e)
	}
	for _, f := range t.Fields {
		up(f.Type)
	}
	return d
}

var typeNames = map[uint16]string{TCustom: "custom", TAscii: "ascii", TBigint: "bigint", TBlob: "blob", TBoolean: "boolean",
	TCounter: "counter", TDecimal: "decimal", TDouble: "double", TFloat: "float", TInt: "int", TText: "text",
	TTimestamp: "timestamp", TUUID: "uuid", TVarchar: "varchar", TVarint: "varint", TTimeuuid: "timeuuid", TInet: "inet",
	TDate: "date", TTime: "time", TSmallint: "smallint", TTinyint: "tinyint", TDuration: "duration",
	TList: "list", TMap: "map", TSet: "set", TUDT: "udt", TTuple: "tuple"}

func (t *Type) String() string {
	if t == nil {
		return "<nil>"
	}
	switch t.ID {
	case TCustom:
		return "custom(" + t.Custom + ")"
	case TList, TSet:
		return typeNames[t.ID] + "<" + t.Elem.String() + ">"
	case TMap:
		return "map<" + t.Key.String() + "," + t.Elem.String() + ">"
	case TTuple:
		s := make([]string, len(t.Elems))
		for i, e := range t.Elems {
			s[i] = e.String()
		}
		return "tuple<" + strings.Join(s, ",") + ">"
	case TUDT:
		s := make([]string, len(t.Fields))
		for i, f := range t.Fields {
			s[i] = f.Name + ":" + f.Type.String()
		}
		return "udt(" + t.UDTKeyspace + "." + t.UDTName + "){" + strings.Join(s, ",") + "}"
	}
	if n, ok := typeNames[t.ID]; ok {
		return n
	}
	return fmt.Sprintf("type(0x%04x)", t.ID)
}

// Leaf is a convenience constructor for a non-parameterised type.
func Leaf(id uint16) *Type          { return &Type{ID: id} }
func CustomType(class string) *Type { return &Type{ID: TCustom, Custom: class} }
func ListOf(e *Type) *Type          { return &Type{ID: TList, Elem: e} }
func SetOf(e *Type) *Type           { return &Type{ID: TSet, Elem: e} }
func MapOf(k, v *Type) *Type        { return &Type{ID: TMap, Key: k, Elem: v} }
func TupleOf(e ...*Type) *Type      { return &Type{ID: TTuple, Elems: e} }
func UDTOf(ks, name string, f ...UDTField) *Type {
	return &Type{ID: TUDT, UDTKeyspace: ks, UDTName: name, Fields: f}
}

// WriteType appends the [option] for t.
//
//	custom: <id=0><class:string>
//	list/set: <id><elem:option>      map: <id><key:option><value:option>
//	udt (v3+): <id><ks:string><udt_name:string><n:short> n*(<name:string><type:option>)
//	tuple (v3+): <id><n:short> n*<type:option>
func (w *W) WriteType(t *Type) {
	w.Short(t.ID)
	switch t.ID {
	case TCustom:
		w.String(t.Custom)
	case TList, TSet:
		w.WriteType(t.Elem)
	case TMap:
		w.WriteType(t.Key)
		w.WriteType(t.Elem)
	case TUDT:
		w.String(t.UDTKeyspace)
		w.String(t.UDTName)
		w.span(2, SpanUDTCount)
		w.Short(uint16(len(t.Fields)))
		for _, f := range t.Fields {
			w.String(f.Name)
			w.WriteType(f.Type)
		}
	case TTuple:
		w.span(2, SpanTupleCount)
		w.Short(uint16(len(t.Elems)))
		for _, e := range t.Elems {
			w.WriteType(e)
		}
	}
}

// ReadType decodes an [option] type; ids not defined in the version are errors.
func (r *R) ReadType(version int) (*Type, error) { return r.readType(version, 0) }

func (r *R) readType(version, depth int) (*Type, error) {
	if depth > 64 {
		return nil, fmt.Errorf("frame: type nesting deeper than 64")
	}
	id, err := r.Short()
	if err != nil {
		return nil, err
	}
	if !TypeIDDefined(version, id) && id != TCustom {
		return nil, fmt.Errorf("frame: type id 0x%04x is not defined in protocol v%d", id, version)
	}
	t := &Type{ID: id}
	switch id {
	case TCustom:
		if t.Custom, err = r.String(); err != nil {
			return nil, err
		}
	case TList, TSet:
		if t.Elem, err = r.readType(version, depth+1); err != nil {
			return nil, err
		}
	case TMap:
		if t.Key, err = r.readType(version, depth+1); err != nil {
			return nil, err
		}
		if t.Elem, err = r.readType(version, depth+1); err != nil {
			return nil, err
		}
	case TUDT:
		if t.UDTKeyspace, err = r.String(); err != nil {
			return nil, err
		}
		if t.UDTName, err = r.String(); err != nil {
			return nil, err
		}
		n, err := r.Short()
		if err != nil {
			return nil, err
		}
		for i := 0; i < int(n); i++ {
			var f UDTField
			if f.Name, err = r.String(); err != nil {
				return nil, err
			}
			if f.Type, err = r.readType(version, depth+1); err != nil {
				return nil, err
			}
			t.Fields = append(t.Fields, f)
		}
	case TTuple:
		n, err := r.Short()
		if err != nil {
			return nil, err
		}
		for i := 0; i < int(n); i++ {
			e, err := r.readType(version, depth+1)
			if err != nil {
				return nil, err
			}
			t.Elems = append(t.Elems, e)
		}
	}
	return t, nil
}

// ---------------------------------------------------------------------------
// A few hand encoders for cell contents (the full value codec lives in
// refcql/value). Cells are opaque [bytes] to the framing layer; these helpers
// exist so that catalogues can contain cells whose decoded meaning is known.

// IntCell is the 4-byte big-endian two's complement encoding of CQL int.
func IntCell(v int32) []byte { w := &W{}; w.Int(v); return w.B }

// BigintCell is the 8-byte encoding of bigint / counter / timestamp.
func BigintCell(v int64) []byte { w := &W{}; w.Long(v); return w.B }

// TextCell is the UTF-8 bytes of a varchar/text/ascii value.
func TextCell(s string) []byte { return append([]byte{}, s...) }

// BoolCell is the single byte of a boolean.
func BoolCell(b bool) []byte {
	if b {
		return []byte{1}
	}
	return []byte{0}
}

// CollectionCell frames list/set elements (or alternating map keys and
// values, with count = number of pairs): v1/v2 use a [short] count and [short
// bytes] elements, v3+ an [int] count and [bytes] elements (nil = null element,
// v3+ only).
func CollectionCell(version, count int, items ...[]byte) []byte {
	w := &W{}
	if version >= 3 {
		w.Int(int32(count))
		for _, it := range items {
			w.Bytes(it)
		}
	} else {
		w.Short(uint16(count))
		for _, it := range items {
			w.ShortBytes(it)
		}
	}
	return w.B
}

// TupleCell / UDTCell: a sequence of [bytes], one per element / field, nil = null.
func TupleCell(elems ...[]byte) []byte {
	w := &W{}
	for _, e := range elems {
		w.Bytes(e)
	}
	if w.B == nil {
		return []byte{}
	}
	return w.B
}

// SplitTupleCell splits a tuple/UDT cell into n elements. Elements missing at
// the end of the cell are reported as null, as the specification allows for
// UDT values written before a field was added.
func SplitTupleCell(cell []byte, n int) ([][]byte, error) {
	out := make([][]byte, n)
	r := &R{B: cell}
	for i := 0; i < n && r.Remaining() > 0; i++ {
		e, err := r.Bytes()
		if err != nil {
			return nil, err
		}
		out[i] = e
	}
	if err := r.End(); err != nil {
		return nil, err
	}
	return out, nil
}
