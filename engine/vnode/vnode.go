// Package vnode is a scripted Cassandra node running as vsched threads over
// vnet connections. Requests are decoded with the independent reference codec
// (refcql/frame), logged, and answered according to a handler; every reply is
// written by its own responder thread so that the scheduler decides reply order.
package vnode

import (
	"fmt"
	"net"
	"time"
	"unsafe"

	"verif/engine/refcql/frame"
	"verif/engine/vsched"
	"verif/engine/vsched/vnet"
)

// Reply tells the node what to do with one request.
type Reply struct {
	Msg      interface{}   // response message (frame.Ready{}, *frame.ResultRows, *frame.Error ...); nil with Never/Drop
	Delay    time.Duration // virtual delay before the reply is written
	Never    bool          // no reply at all
	Drop     bool          // close the connection instead of replying
	CutAt    int           // >0: write only the first CutAt bytes of the reply, then abort the connection
	Raw      []byte        // if set, written instead of the encoded Msg
	StallAt  int           // >0 with StallFor: write the first StallAt bytes, write nothing on this connection for StallFor, then write the rest
	StallFor time.Duration
	TraceID  *[16]byte
	Warnings []string
	Stream   *int   // override the stream id of the reply
	Then     func() // runs in the responder thread after the reply was written
}

type ReqRec struct {
	Seq       int
	Conn      int
	Stream    int
	Op        byte
	Req       *frame.Request
	DecodeErr error
	Raw       []byte
	Time      time.Duration
	Replied   bool
	ReplyAt   time.Duration
	Fate      string
}

type ServerConn struct {
	ID       int
	C        *vnet.Conn
	Node     *Node
	Keyspace string
	Ready    bool
	Unparsed func() int // bytes received but not yet forming a complete frame (sync mode)

	stallUntil time.Duration // a reply stalled mid-frame holds back every later write on this connection until then
}

// waitStall blocks while a stalled reply holds the connection's outgoing stream.
func (sc *ServerConn) waitStall() {
	for sc.stallUntil > vsched.Clock() {
		vsched.Sleep(sc.stallUntil - vsched.Clock())
	}
}

type Handler func(n *Node, sc *ServerConn, rec *ReqRec) Reply

type Node struct {
	Name    string
	Addr    *net.TCPAddr
	Handler Handler
	Log     []*ReqRec
	Conns   []*ServerConn
	// OnFrameError is called when the node cannot parse what the client wrote.
	FrameErrors []string
	obj         byte
}

func New(name string, ip net.IP, port int, h Handler) *Node {
	return &Node{Name: name, Addr: &net.TCPAddr{IP: ip, Port: port}, Handler: h}
}

func (n *Node) touch() { vsched.Touch(unsafe.Pointer(&n.obj), true) }

// Accept attaches the server end of a pipe to the node and starts its reader thread.
func (n *Node) Accept(server *vnet.Conn) *ServerConn {
	n.touch()
	sc := &ServerConn{ID: len(n.Conns), C: server, Node: n}
	n.Conns = append(n.Conns, sc)
	vsched.GoDaemon(fmt.Sprintf("%s/conn%d/reader", n.Name, sc.ID), func() { n.serve(sc) })
	return sc
}

// AcceptSync attaches the server end without a reader thread: the node parses
// and handles each request synchronously inside the client's Write (zero request
// latency; replies still come from their own responder threads).
func (n *Node) AcceptSync(server *vnet.Conn) *ServerConn {
	n.touch()
	sc := &ServerConn{ID: len(n.Conns), C: server, Node: n}
	n.Conns = append(n.Conns, sc)
	var buf []byte
	dead := false
	server.Sink = func(data []byte) {
		if dead {
			return
		}
		n.touch()
		buf = append(buf, data...)
		for len(buf) > 0 {
			v := int(buf[0] & 0x7f)
			hs := 9
			if v < 3 {
				hs = 8
			}
			if len(buf) < hs {
				return
			}
			h, _, err := frame.ParseHeader(buf[:hs])
			if err != nil {
				n.FrameErrors = append(n.FrameErrors, fmt.Sprintf("conn%d: bad header % x: %v", sc.ID, buf[:hs], err))
				dead = true
				return
			}
			if h.Length < 0 || h.Length > 1<<24 {
				n.FrameErrors = append(n.FrameErrors, fmt.Sprintf("conn%d: implausible frame length %d", sc.ID, h.Length))
				dead = true
				return
			}
			if len(buf) < hs+int(h.Length) {
				return
			}
			raw := append([]byte(nil), buf[:hs+int(h.Length)]...)
			buf = buf[hs+int(h.Length):]
			rec := &ReqRec{Seq: len(n.Log), Conn: sc.ID, Stream: h.Stream, Op: h.Op, Raw: raw, Time: vsched.Clock()}
			if h.Flags&frame.FlagCompression != 0 {
				rec.DecodeErr = fmt.Errorf("compressed request (node has no decompressor)")
			} else {
				rec.Req, rec.DecodeErr = frame.DecodeRequestBody(h, raw[hs:])
			}
			n.Log = append(n.Log, rec)
			if rec.DecodeErr != nil {
				n.FrameErrors = append(n.FrameErrors, fmt.Sprintf("conn%d: undecodable request op=%#x stream=%d: %v", sc.ID, h.Op, h.Stream, rec.DecodeErr))
				dead = true
				return
			}
			rep := n.Handler(n, sc, rec)
			n.dispatch(sc, rec, h, rep)
		}
	}
	sc.Unparsed = func() int { return len(buf) }
	return sc
}

func readFull(c *vnet.Conn, p []byte) error {
	for off := 0; off < len(p); {
		k, err := c.Read(p[off:])
		off += k
		if err != nil {
			return err
		}
	}
	return nil
}

func (n *Node) serve(sc *ServerConn) {
	for {
		var first [1]byte
		if err := readFull(sc.C, first[:]); err != nil {
			return
		}
		v := int(first[0] & 0x7f)
		hs := 9
		if v < 3 {
			hs = 8
		}
		hdr := make([]byte, hs)
		hdr[0] = first[0]
		if err := readFull(sc.C, hdr[1:]); err != nil {
			n.touch()
			n.FrameErrors = append(n.FrameErrors, fmt.Sprintf("conn%d: incomplete header: %v", sc.ID, err))
			return
		}
		h, _, err := frame.ParseHeader(hdr)
		if err != nil {
			n.touch()
			n.FrameErrors = append(n.FrameErrors, fmt.Sprintf("conn%d: bad header % x: %v", sc.ID, hdr, err))
			return
		}
		if h.Length < 0 || h.Length > 1<<24 {
			n.touch()
			n.FrameErrors = append(n.FrameErrors, fmt.Sprintf("conn%d: implausible frame length %d", sc.ID, h.Length))
			return
		}
		body := make([]byte, h.Length)
		if err := readFull(sc.C, body); err != nil {
			n.touch()
			n.FrameErrors = append(n.FrameErrors, fmt.Sprintf("conn%d: incomplete body (%d bytes declared): %v", sc.ID, h.Length, err))
			return
		}
		n.touch()
		rec := &ReqRec{Seq: len(n.Log), Conn: sc.ID, Stream: h.Stream, Op: h.Op, Raw: append(hdr, body...), Time: vsched.Clock()}
		if h.Flags&frame.FlagCompression != 0 {
			rec.DecodeErr = fmt.Errorf("compressed request (node has no decompressor)")
		} else {
			rec.Req, rec.DecodeErr = frame.DecodeRequestBody(h, body)
		}
		n.Log = append(n.Log, rec)
		if rec.DecodeErr != nil {
			n.FrameErrors = append(n.FrameErrors, fmt.Sprintf("conn%d: undecodable request op=%#x stream=%d: %v", sc.ID, h.Op, h.Stream, rec.DecodeErr))
			sc.C.Abort()
			return
		}
		rep := n.Handler(n, sc, rec)
		n.dispatch(sc, rec, h, rep)
	}
}

func (n *Node) dispatch(sc *ServerConn, rec *ReqRec, h frame.Header, rep Reply) {
	switch {
	case rep.Never:
		rec.Fate = "never"
		return
	case rep.Drop:
		rec.Fate = "drop"
		vsched.GoDaemon(fmt.Sprintf("%s/conn%d/drop%d", n.Name, sc.ID, rec.Seq), func() {
			if rep.Delay > 0 {
				vsched.Sleep(rep.Delay)
			}
			sc.C.Close()
		})
		return
	}
	raw := rep.Raw
	if raw == nil {
		stream := h.Stream
		if rep.Stream != nil {
			stream = *rep.Stream
		}
		enc, err := frame.Encode(&frame.Response{Version: h.Version, Stream: stream, TraceID: rep.TraceID, Warnings: rep.Warnings, Msg: rep.Msg})
		if err != nil {
			panic(fmt.Sprintf("vnode: cannot encode reply %T for v%d: %v", rep.Msg, h.Version, err))
		}
		raw = enc.Bytes()
	}
	rec.Fate = "reply"
	if rep.Delay > 0 {
		rec.Fate = "late"
	}
	vsched.GoDaemon(fmt.Sprintf("%s/conn%d/reply%d", n.Name, sc.ID, rec.Seq), func() {
		if rep.Delay > 0 {
			vsched.Sleep(rep.Delay)
		}
		if rep.CutAt > 0 && rep.CutAt < len(raw) {
			sc.C.WriteAndAbort(raw[:rep.CutAt])
			return
		}
		sc.waitStall()
		if rep.StallAt > 0 && rep.StallAt < len(raw) && rep.StallFor > 0 {
			rec.Fate = "stall"
			if _, err := sc.C.Write(raw[:rep.StallAt]); err != nil {
				return
			}
			sc.stallUntil = vsched.Clock() + rep.StallFor
			vsched.Sleep(rep.StallFor)
			raw = raw[rep.StallAt:]
		}
		if _, err := sc.C.Write(raw); err == nil {
			n.touch()
			rec.Replied = true
			rec.ReplyAt = vsched.Clock()
		}
		if rep.Then != nil {
			rep.Then()
		}
	})
}

// Push writes an EVENT (stream -1) on the connection.
func (sc *ServerConn) Push(version int, msg interface{}) error {
	enc, err := frame.Encode(&frame.Response{Version: version, Stream: -1, Msg: msg})
	if err != nil {
		return err
	}
	sc.waitStall()
	_, err = sc.C.Write(enc.Bytes())
	return err
}

// Basic answers the connection handshake the way a plain node does and
// delegates everything else to next (nil: RESULT void).
func Basic(next Handler) Handler {
	return func(n *Node, sc *ServerConn, rec *ReqRec) Reply {
		switch rec.Req.Msg.(type) {
		case *frame.Options:
			return Reply{Msg: &frame.Supported{Options: []frame.KL{{Key: "CQL_VERSION", Values: []string{"3.4.5"}}, {Key: "COMPRESSION", Values: []string{"snappy", "lz4"}}}}}
		case *frame.Startup:
			sc.Ready = true
			return Reply{Msg: frame.Ready{}}
		case *frame.Register:
			return Reply{Msg: frame.Ready{}}
		}
		if next != nil {
			return next(n, sc, rec)
		}
		return Reply{Msg: frame.ResultVoid{}}
	}
}

// TextRows builds a one-column varchar result.
func TextRows(col string, vals ...string) *frame.ResultRows {
	r := &frame.ResultRows{Meta: frame.RowsMetadata{GlobalTableSpec: true, GlobalKeyspace: "ks", GlobalTable: "t", ColumnCount: 1,
		Columns: []frame.ColumnSpec{{Keyspace: "ks", Table: "t", Name: col, Type: frame.Leaf(frame.TVarchar)}}}}
	for _, v := range vals {
		r.Rows = append(r.Rows, [][]byte{frame.TextCell(v)})
	}
	return r
}
