package refcass2

import "encoding/binary"

// peerenc.go: minimal, independent ENCODERS for the two body formats, so that gocql's decoders
// are also exercised on streams that gocql's own encoders did not produce (a Cassandra node
// uses lz4-java / snappy-java, whose output differs from pierrec/lz4 and golang/snappy).
// They emit only constructs the format descriptions define: literal-only streams, and
// "literal of one period + overlapping match over the rest" for periodic inputs.

func lz4Len(dst []byte, n int) []byte { // extension bytes for a length whose nibble is 15
	n -= 15
	for n >= 255 {
		dst = append(dst, 255)
		n -= 255
	}
	return append(dst, byte(n))
}

// lz4LiteralBlock: one final sequence holding all of x as literals.
func lz4LiteralBlock(dst, x []byte) []byte {
	if len(x) < 15 {
		dst = append(dst, byte(len(x))<<4)
	} else {
		dst = append(dst, 0xF0)
		dst = lz4Len(dst, len(x))
	}
	return append(dst, x...)
}

// CassandraLZ4EncodeLiterals: 4-byte big-endian length + a literal-only block.
func CassandraLZ4EncodeLiterals(x []byte) []byte {
	dst := make([]byte, 4, len(x)+len(x)/255+24)
	binary.BigEndian.PutUint32(dst, uint32(len(x)))
	return lz4LiteralBlock(dst, x)
}

// CassandraLZ4EncodePeriodic encodes x, which must satisfy x[i] == x[i-p] for all i >= p, as
// literals x[:p], one match (offset p) and the last 5 bytes as literals, respecting the
// end-of-block rules (last 5 bytes literal, last match starts >= 12 bytes before the end).
// ok=false if x is too short for a match or p does not fit the 16-bit offset.
func CassandraLZ4EncodePeriodic(x []byte, p int) (enc []byte, ok bool) {
	n := len(x)
	ml := n - p - 5
	if p <= 0 || p > 65535 || ml < 4 || p > n-12 {
		return nil, false
	}
	dst := make([]byte, 4, n)
	binary.BigEndian.PutUint32(dst, uint32(n))
	tok := len(dst)
	dst = append(dst, 0)
	if p < 15 {
		dst[tok] = byte(p) << 4
	} else {
		dst[tok] = 0xF0
		dst = lz4Len(dst, p)
	}
	dst = append(dst, x[:p]...)
	dst = append(dst, byte(p), byte(p>>8))
	if ml-4 < 15 {
		dst[tok] |= byte(ml - 4)
	} else {
		dst[tok] |= 0x0F
		dst = lz4Len(dst, ml-4)
	}
	return lz4LiteralBlock(dst, x[n-5:]), true
}

func snappyLiteral(dst, lit []byte) []byte {
	for len(lit) > 0 {
		c := lit
		if len(c) > 65536 {
			c = c[:65536]
		}
		lit = lit[len(c):]
		n := len(c) - 1
		switch {
		case n < 60:
			dst = append(dst, byte(n)<<2)
		case n < 1<<8:
			dst = append(dst, 60<<2, byte(n))
		case n < 1<<16:
			dst = append(dst, 61<<2, byte(n), byte(n>>8))
		default:
			dst = append(dst, 62<<2, byte(n), byte(n>>8), byte(n>>16))
		}
		dst = append(dst, c...)
	}
	return dst
}

// SnappyEncodeLiterals: varint length + literal elements of at most 65536 bytes.
func SnappyEncodeLiterals(x []byte) []byte {
	dst := make([]byte, 0, len(x)+len(x)/65536*4+16)
	dst = binary.AppendUvarint(dst, uint64(len(x)))
	return snappyLiteral(dst, x)
}

// SnappyEncodePeriodic: literal x[:p], then copies with offset p (x[i] == x[i-p] required).
// The 1-byte-offset form is used where it applies (length 4..11, offset < 2048), else the
// 2-byte form (offset < 65536), else the 4-byte form.
func SnappyEncodePeriodic(x []byte, p int) (enc []byte, ok bool) {
	n := len(x)
	if p <= 0 || p >= n {
		return nil, false
	}
	dst := make([]byte, 0, n/16+p+32)
	dst = binary.AppendUvarint(dst, uint64(n))
	dst = snappyLiteral(dst, x[:p])
	rest := n - p
	for rest > 0 {
		l := rest
		if l > 64 {
			l = 64
		}
		if rest-l > 0 && rest-l < 4 { // keep a tail that the copy forms can express comfortably
			l -= 4
		}
		switch {
		case l >= 4 && l <= 11 && p < 2048:
			dst = append(dst, byte(p>>8)<<5|byte(l-4)<<2|1, byte(p))
		case p < 65536:
			dst = append(dst, byte(l-1)<<2|2, byte(p), byte(p>>8))
		default:
			dst = append(dst, byte(l-1)<<2|3, byte(p), byte(p>>8), byte(p>>16), byte(p>>24))
		}
		rest -= l
	}
	return dst, true
}
