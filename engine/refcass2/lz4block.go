package refcass2

import (
	"encoding/binary"
	"errors"
	"fmt"
)

// lz4block.go: a decoder for the LZ4 *block* format written from the format description
// (lz4_Block_format.md), independent of github.com/pierrec/lz4, and the framing Cassandra
// puts around it in native-protocol frame bodies (org.apache.cassandra.transport.
// FrameCompressor.LZ4Compressor): 4 bytes big-endian uncompressed length, then one raw block;
// the decompressor must consume the whole input and produce exactly that many bytes.
//
// Block format: a block is a series of sequences. Each sequence: a token (high nibble =
// literal length, low nibble = match length - 4), optional literal-length extension bytes
// (while the nibble/byte is 15/255 add the next byte), the literals, then a 2-byte
// little-endian offset (0 is invalid; it may not reach before the start of the output),
// optional match-length extension bytes, and the match is copied byte-wise (it may overlap
// its own output). The LAST sequence stops after its literals: the block ends right there.
// An empty input is represented by the single token 0x00. (The encoder-side restrictions
// "last 5 bytes are literals", "last match starts >= 12 bytes before the end" are not
// enforced by a conforming decoder and are not enforced here.)

var ErrLZ4 = errors.New("lz4 block: malformed")

func lz4err(f string, a ...interface{}) error {
	return fmt.Errorf("%w: %s", ErrLZ4, fmt.Sprintf(f, a...))
}

// LZ4BlockDecode decodes one raw block. maxOut bounds the output (the declared length).
func LZ4BlockDecode(src []byte, maxOut int) ([]byte, error) {
	if len(src) == 0 {
		return nil, lz4err("empty block (an empty input is the single token 00)")
	}
	out := make([]byte, 0, minInt(maxOut, 1<<20))
	i := 0
	for {
		if i >= len(src) {
			return nil, lz4err("block ends after a match; the last sequence must end with its literals")
		}
		token := src[i]
		i++
		lit := int(token >> 4)
		if lit == 15 {
			for {
				if i >= len(src) {
					return nil, lz4err("input ends inside a literal length")
				}
				b := src[i]
				i++
				lit += int(b)
				if lit > maxOut {
					return nil, lz4err("literal length beyond the declared size")
				}
				if b != 255 {
					break
				}
			}
		}
		if lit > len(src)-i {
			return nil, lz4err("literals run past the input (%d > %d)", lit, len(src)-i)
		}
		if len(out)+lit > maxOut {
			return nil, lz4err("output beyond the declared size")
		}
		out = append(out, src[i:i+lit]...)
		i += lit
		if i == len(src) {
			// (the match-length nibble of a final, literal-only sequence is unused; the reference
			// decoder ignores it, so any value is accepted)
			return out, nil
		}
		if len(src)-i < 2 {
			return nil, lz4err("input ends inside an offset")
		}
		off := int(binary.LittleEndian.Uint16(src[i:]))
		i += 2
		if off == 0 {
			return nil, lz4err("offset 0")
		}
		if off > len(out) {
			return nil, lz4err("offset %d before the start of the output (%d)", off, len(out))
		}
		ml := int(token & 0x0F)
		if ml == 15 {
			for {
				if i >= len(src) {
					return nil, lz4err("input ends inside a match length")
				}
				b := src[i]
				i++
				ml += int(b)
				if ml > maxOut {
					return nil, lz4err("match length beyond the declared size")
				}
				if b != 255 {
					break
				}
			}
		}
		ml += 4
		if len(out)+ml > maxOut {
			return nil, lz4err("output beyond the declared size")
		}
		for k := 0; k < ml; k++ {
			out = append(out, out[len(out)-off])
		}
	}
}

// CassandraLZ4Decode decodes a Cassandra LZ4 frame body: 4-byte big-endian uncompressed
// length, then one block that must decode to exactly that many bytes.
func CassandraLZ4Decode(body []byte) ([]byte, error) {
	if len(body) < 4 {
		return nil, lz4err("body shorter than the 4-byte length")
	}
	n := binary.BigEndian.Uint32(body)
	if uint64(n) > 1<<31-1 {
		return nil, lz4err("declared length %d is negative as a Java int", n)
	}
	out, err := LZ4BlockDecode(body[4:], int(n))
	if err != nil {
		return nil, err
	}
	if len(out) != int(n) {
		return nil, lz4err("decoded %d bytes, declared %d", len(out), n)
	}
	return out, nil
}

func minInt(a, b int) int {
	if a < b {
		return a
	}
	return b
}
