// Package refcass2 holds small ports of Apache Cassandra reference behaviour used by
// the sequential C18/C19/C20 checks (kept apart from refcass, which has another owner).
//
// timeuuid.go: the ordering of org.apache.cassandra.db.marshal.TimeUUIDType.
//
// Two ports are given and cross-checked by the harness:
//
//   - CompareTimeUUID: port of TimeUUIDType.compareCustom as of Cassandra 3.0 .. 5.0
//     (reorderTimestampBytes + signedBytesToNativeLong, two signed 64-bit compares).
//   - CompareTimeUUIDLegacy: port of TimeUUIDType.compare of Cassandra 1.2 / 2.0 / 2.1
//     (compareTimestampBytes, then ByteBuffer.compareTo = lexicographic over SIGNED bytes).
//
// Both are defined only for two 16-byte version-1 values (Cassandra asserts the version
// nibble); the harness only calls them with such values.
package refcass2

import "encoding/binary"

// reorderTimestampBytes is TimeUUIDType.reorderTimestampBytes:
//
//	return (input << 48) | ((input << 16) & 0xFFFF00000000L) | (input >>> 32);
//
// i.e. time_hi_and_version to the top, time_mid in the middle, time_low at the bottom.
func reorderTimestampBytes(input uint64) uint64 {
	return (input << 48) | ((input << 16) & 0xFFFF00000000) | (input >> 32)
}

// signedBytesToNativeLong is TimeUUIDType.signedBytesToNativeLong:
//
//	return signedBytes ^ 0x0080808080808080L;
//
// "takes as input 8 signed bytes in native machine order, returns the first byte
// unchanged, and the following 7 bytes converted to an unsigned representation".
func signedBytesToNativeLong(signedBytes uint64) uint64 {
	return signedBytes ^ 0x0080808080808080
}

func cmpInt64(a, b int64) int {
	switch {
	case a < b:
		return -1
	case a > b:
		return 1
	}
	return 0
}

// CompareTimeUUID ports compareCustom (Cassandra >= 3.0):
//
//	long msb1 = reorderTimestampBytes(b1.getLong(s1)); (same for b2)
//	int c = Long.compare(msb1, msb2); if (c != 0) return c;
//	long lsb1 = signedBytesToNativeLong(b1.getLong(s1 + 8)); (same for b2)
//	return Long.compare(lsb1, lsb2);
//
// ByteBuffer.getLong is big-endian; Long.compare is a signed comparison.
func CompareTimeUUID(a, b [16]byte) int {
	msb1 := reorderTimestampBytes(binary.BigEndian.Uint64(a[0:8]))
	msb2 := reorderTimestampBytes(binary.BigEndian.Uint64(b[0:8]))
	if c := cmpInt64(int64(msb1), int64(msb2)); c != 0 {
		return c
	}
	lsb1 := signedBytesToNativeLong(binary.BigEndian.Uint64(a[8:16]))
	lsb2 := signedBytesToNativeLong(binary.BigEndian.Uint64(b[8:16]))
	return cmpInt64(int64(lsb1), int64(lsb2))
}

// CompareTimeUUIDLegacy ports the Cassandra 2.0 code:
//
//	int res = compareTimestampBytes(o1, o2);
//	if (res != 0) return res;
//	return o1.compareTo(o2);          // java.nio.ByteBuffer: Byte.compare on each byte (signed)
//
//	compareTimestampBytes: (o1[6]&0xF)-(o2[6]&0xF), then bytes 7, 4, 5, 0, 1, 2, 3 as unsigned.
//
// The result is normalised to -1/0/1.
func CompareTimeUUIDLegacy(a, b [16]byte) int {
	sign := func(d int) int {
		switch {
		case d < 0:
			return -1
		case d > 0:
			return 1
		}
		return 0
	}
	if d := int(a[6]&0xF) - int(b[6]&0xF); d != 0 {
		return sign(d)
	}
	for _, i := range [...]int{7, 4, 5, 0, 1, 2, 3} {
		if d := int(a[i]) - int(b[i]); d != 0 {
			return sign(d)
		}
	}
	for i := 0; i < 16; i++ {
		if d := int(int8(a[i])) - int(int8(b[i])); d != 0 {
			return sign(d)
		}
	}
	return 0
}

// TimestampOf extracts the 60-bit timestamp of a version-1 UUID per RFC 4122 section 4.1.4
// (time_low bytes 0-3, time_mid bytes 4-5, time_hi 12 bits of bytes 6-7).
func TimestampOf(u [16]byte) uint64 {
	low := uint64(binary.BigEndian.Uint32(u[0:4]))
	mid := uint64(binary.BigEndian.Uint16(u[4:6]))
	hi := uint64(binary.BigEndian.Uint16(u[6:8]) & 0x0FFF)
	return hi<<48 | mid<<32 | low
}

// PackV1 lays out an RFC 4122 version-1 UUID: 60-bit timestamp ts, byte 8 given in full
// (the caller chooses a variant-conforming value 0x80..0xBF or not), bytes 9..15 in low7.
func PackV1(ts uint64, b8 byte, low7 [7]byte) [16]byte {
	var u [16]byte
	binary.BigEndian.PutUint32(u[0:4], uint32(ts))
	binary.BigEndian.PutUint16(u[4:6], uint16(ts>>32))
	binary.BigEndian.PutUint16(u[6:8], uint16(ts>>48)&0x0FFF|0x1000)
	u[8] = b8
	copy(u[9:], low7[:])
	return u
}
