package refcass2

import (
	"errors"
	"fmt"
)

// snappyref.go: a decoder for the raw Snappy format written from format_description.txt,
// independent of github.com/golang/snappy (which gocql uses on both of its own sides).
// Cassandra's SnappyCompressor puts the raw Snappy stream in the frame body as is.
//
// Stream: uncompressed length as a little-endian base-128 varint (at most 32 bits), then
// elements. Tag byte, low two bits:
//   00 literal: (len-1) in the upper six bits; 60..63 mean (len-1) follows in 1..4 bytes LE
//   01 copy, 1-byte offset: len = 4 + bits 2..4, offset = bits 5..7 << 8 | next byte
//   10 copy, 2-byte offset: len = 1 + upper six bits, offset = next two bytes LE
//   11 copy, 4-byte offset: len = 1 + upper six bits, offset = next four bytes LE
// Offset 0 is invalid, an offset may not reach before the start of the output; copies may
// overlap their own output. The output must be exactly the declared length.

var ErrSnappy = errors.New("snappy: malformed")

func snerr(f string, a ...interface{}) error {
	return fmt.Errorf("%w: %s", ErrSnappy, fmt.Sprintf(f, a...))
}

func SnappyDecode(src []byte) ([]byte, error) {
	var n uint64
	i := 0
	for shift := uint(0); ; shift += 7 {
		if i >= len(src) {
			return nil, snerr("input ends inside the length varint")
		}
		if shift >= 35 {
			return nil, snerr("length varint longer than 5 bytes")
		}
		b := src[i]
		i++
		n |= uint64(b&0x7f) << shift
		if b&0x80 == 0 {
			break
		}
	}
	if n > 0xffffffff {
		return nil, snerr("declared length does not fit 32 bits")
	}
	max := int(n)
	out := make([]byte, 0, minInt(max, 1<<20))
	for i < len(src) {
		tag := src[i]
		i++
		var length, off int
		switch tag & 3 {
		case 0:
			l := uint64(tag >> 2)
			if l >= 60 {
				nb := int(l) - 59
				if len(src)-i < nb {
					return nil, snerr("input ends inside a literal length")
				}
				l = 0
				for k := 0; k < nb; k++ {
					l |= uint64(src[i+k]) << (8 * uint(k))
				}
				i += nb
			}
			l++
			if l > uint64(len(src)-i) {
				return nil, snerr("literal runs past the input")
			}
			if uint64(len(out))+l > uint64(max) {
				return nil, snerr("output beyond the declared length")
			}
			out = append(out, src[i:i+int(l)]...)
			i += int(l)
			continue
		case 1:
			if len(src)-i < 1 {
				return nil, snerr("input ends inside a copy")
			}
			length = 4 + int(tag>>2)&7
			off = int(tag>>5)<<8 | int(src[i])
			i++
		case 2:
			if len(src)-i < 2 {
				return nil, snerr("input ends inside a copy")
			}
			length = 1 + int(tag>>2)
			off = int(src[i]) | int(src[i+1])<<8
			i += 2
		case 3:
			if len(src)-i < 4 {
				return nil, snerr("input ends inside a copy")
			}
			length = 1 + int(tag>>2)
			o := uint64(src[i]) | uint64(src[i+1])<<8 | uint64(src[i+2])<<16 | uint64(src[i+3])<<24
			i += 4
			if o > uint64(len(out)) {
				return nil, snerr("offset before the start of the output")
			}
			off = int(o)
		}
		if off == 0 {
			return nil, snerr("offset 0")
		}
		if off > len(out) {
			return nil, snerr("offset %d before the start of the output (%d)", off, len(out))
		}
		if len(out)+length > max {
			return nil, snerr("output beyond the declared length")
		}
		for k := 0; k < length; k++ {
			out = append(out, out[len(out)-off])
		}
	}
	if len(out) != max {
		return nil, snerr("decoded %d bytes, declared %d", len(out), max)
	}
	return out, nil
}
