// Package enum is the single-threaded "pure enumeration" mode of the explorer:
// a stateless depth-first search over choice sequences with prefix replay.
//
// A generator is ordinary Go code that calls c.Choose(n) (smallest alternative
// first). All runs the body once per complete choice sequence; the enumeration
// is exhaustive over the tree the body spans.
package enum

import "fmt"

type Ctx struct {
	prefix []int // choices to replay
	trail  []int // choices made in this run
	width  []int // number of alternatives at each point of this run
	pos    int
}

// Choose returns a value in [0,n). n must be >= 1 and must be a deterministic
// function of the previous choices.
func (c *Ctx) Choose(n int) int {
	if n <= 0 {
		panic(fmt.Sprintf("enum: Choose(%d)", n))
	}
	v := 0
	if c.pos < len(c.prefix) {
		v = c.prefix[c.pos]
		if v >= n {
			panic(fmt.Sprintf("enum: replay divergence at %d: choice %d of %d", c.pos, v, n))
		}
	}
	c.trail = append(c.trail, v)
	c.width = append(c.width, n)
	c.pos++
	return v
}

// Bool is Choose(2)==1.
func (c *Ctx) Bool() bool { return c.Choose(2) == 1 }

// Trail returns a copy of the choices made so far in this run.
func (c *Ctx) Trail() []int { return append([]int(nil), c.trail...) }

// Pick chooses an index into a slice of length n and returns it (alias of Choose).
func (c *Ctx) Pick(n int) int { return c.Choose(n) }

// All enumerates every choice sequence of body. It returns the number of runs.
// If body returns false the enumeration stops early.
func All(body func(c *Ctx) bool) int64 {
	return AllFrom(nil, body)
}

// AllFrom enumerates the subtree below the given fixed prefix.
func AllFrom(fixed []int, body func(c *Ctx) bool) int64 {
	var runs int64
	prefix := append([]int(nil), fixed...)
	for {
		c := &Ctx{prefix: prefix}
		cont := body(c)
		runs++
		if !cont {
			return runs
		}
		if len(c.trail) < len(prefix) {
			panic("enum: replay divergence: run shorter than prefix")
		}
		// next sequence: increment last incrementable position beyond the fixed prefix
		i := len(c.trail) - 1
		for ; i >= len(fixed); i-- {
			if c.trail[i]+1 < c.width[i] {
				break
			}
		}
		if i < len(fixed) {
			return runs
		}
		prefix = append(append([]int(nil), c.trail[:i]...), c.trail[i]+1)
	}
}

// Replay runs body once on exactly the given choice sequence.
func Replay(choices []int, body func(c *Ctx) bool) {
	body(&Ctx{prefix: choices})
}
