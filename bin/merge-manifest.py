#!/usr/bin/env python3
"""Assemble /verif/MANIFEST.json from harness/*/manifest_entry.json (+ not_applicable for the rest)."""
import json, glob, os, sys
V = '/verif'
props = [json.loads(l) for l in open(f'{V}/properties.jsonl')]
entries = {}
for f in sorted(glob.glob(f'{V}/harness/c[0-9]*/manifest_entry.json')):
    if not os.path.exists(os.path.join(os.path.dirname(f), 'READY')):
        continue
    e = json.load(open(f))
    if e['property_id'] == 'C00':
        continue
    for k in ('property_id', 'quick_cmd', 'evidence_file', 'level_claimed', 'level_note'):
        assert k in e, (f, k)
    entries[e['property_id']] = e
na_reasons = {}
if os.path.exists(f'{V}/not_applicable.json'):
    na_reasons = json.load(open(f'{V}/not_applicable.json'))
env = "GOFLAGS=-mod=mod GOPROXY=off GOSUMDB=off GOTOOLCHAIN=local"
m = {
    "version": 1,
    "setup_cmd": "bin/setup",
    "hooks": {
        "guard": "verif",
        "enable": "bin/check copies /repo's working tree to a scratch dir, adds the harness files (//go:build verif), for instrumented checks rewrites the copy with bin/instrument, and builds with -tags verif; nothing is committed to /repo",
        "baseline_off_cmd": f"cd /repo && {env} go test -vet=off -count=1 ./... && cd lz4 && {env} go test -vet=off -count=1 ./...",
        "source_commits": [],
        "add_only": True,
    },
    "engines": [
        {"name": "vsched", "path": "engine/vsched", "kind_free_text": "hand-written stateless model checker for Go: cooperative controlled scheduler over a source-instrumented copy of gocql (engine/instrument), virtual time, enumerated environment choices, preemption/clock/fault-bounded DFS with happens-before or observational state caching, replay files", "serves_properties": sorted(p for p, e in entries.items() if 'vsched' in e.get('engine', '') or os.path.isdir(f"{V}/harness/{p.lower()}/mc"))},
        {"name": "enum", "path": "engine/enum", "kind_free_text": "bounded-exhaustive enumeration (DFS over choice sequences) against reference models written from the specifications (engine/refcql, engine/refcass, engine/refcass2)", "serves_properties": sorted(p for p, e in entries.items() if 'vsched' not in e.get('engine', ''))},
        {"name": "race-pass", "path": "harness/c17/race", "kind_free_text": "free-running go test -race of stress bodies against the repository's in-process test server (sampled; reports races only; embedded in C17's evidence)", "serves_properties": ["C17"]},
    ],
    "checks": [entries[p['id']] for p in props if p['id'] in entries],
    "not_applicable": [{"property_id": p['id'], "reason": na_reasons.get(p['id'], "check not built yet (work in progress; see DESIGN.md section 4)")} for p in props if p['id'] not in entries],
    "notes": "Every check: bin/check <ID> <quick|thorough>; exit 0 held / 1 VIOLATION / 2 infrastructure error. Known findings: known_findings.txt. Design: DESIGN.md.",
}
json.dump(m, open(f'{V}/MANIFEST.json', 'w'), indent=1)
print("checks:", [c['property_id'] for c in m['checks']], "n/a:", [n['property_id'] for n in m['not_applicable']])
