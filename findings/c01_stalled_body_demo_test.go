//go:build verif_demo

package gocql

// Native demonstration of the C01 defect repaired by /repo commit 550bcc2 (copy into the repository root of the
// commit before it, c7360bf, as zz_demo_test.go and run `go test -tags verif_demo -run TestDemoStalledBody .`; it fails there and
// passes from 550bcc2 on). Found by the stall fate of the C01/C06 harness (scenarios *-stalled-body-late-caller).
//
// A response body stalls on the network for longer than the five read attempts Conn.Read grants. Before the fix the
// receive loop reported the error to the caller but carried on reading "frames" from the middle of that body: the
// rest of the old response was handed to a later request. (Helper code adapted from seeded/C01-r2-1.)

import (
	"bufio"
	"bytes"
	"context"
	"encoding/binary"
	"io"
	"net"
	"testing"
	"time"

	"github.com/gocql/gocql/internal/streams"
)

type demoErrHandler struct{}

func (demoErrHandler) HandleError(*Conn, error, bool) {}

func demoNewConn(proto int, timeout time.Duration) (*Conn, net.Conn) {
	client, server := net.Pipe()
	ctx, cancel := context.WithCancel(context.Background())
	c := &Conn{
		conn:         client,
		r:            bufio.NewReader(client),
		calls:        make(map[int]*callReq),
		version:      uint8(proto),
		streams:      streams.New(proto),
		timeout:      timeout,
		writeTimeout: timeout,
		errorHandler: demoErrHandler{},
		logger:       nopLogger{},
		host:         &HostInfo{},
		ctx:          ctx,
		cancel:       cancel,
		w: &deadlineContextWriter{
			w:         client,
			timeout:   timeout,
			semaphore: make(chan struct{}, 1),
			quit:      make(chan struct{}),
		},
	}
	go c.serve(ctx)
	return c, server
}

// demoReadRequest reads one v3+ request frame and returns its stream id.
func demoReadRequest(r io.Reader) (int, error) {
	var h [9]byte
	if _, err := io.ReadFull(r, h[:]); err != nil {
		return 0, err
	}
	stream := int(int16(binary.BigEndian.Uint16(h[2:4])))
	length := int(binary.BigEndian.Uint32(h[5:9]))
	if _, err := io.CopyN(io.Discard, r, int64(length)); err != nil {
		return 0, err
	}
	return stream, nil
}

// demoFrame builds a v4 RESULT response frame with the given raw body.
func demoFrame(stream int, body []byte) []byte {
	f := make([]byte, 9, 9+len(body))
	f[0] = 0x84
	f[1] = 0
	binary.BigEndian.PutUint16(f[2:4], uint16(stream))
	f[4] = byte(opResult)
	binary.BigEndian.PutUint32(f[5:9], uint32(len(body)))
	return append(f, body...)
}

func TestDemoStalledBodyIsNotHandedToLaterRequest(t *testing.T) {
	const T = 60 * time.Millisecond

	c, srv := demoNewConn(4, T)
	defer c.Close()
	defer srv.Close()

	ownB := []byte("OWN-RESPONSE-OF-REQUEST-B")
	tailOfA := []byte("tail-of-the-response-to-request-A")

	go func() {
		a, err := demoReadRequest(srv)
		if err != nil {
			return
		}
		head := []byte("first-part-of-the-response-to-A|")
		secondLen := 9 + len(tailOfA)
		full := demoFrame(a, make([]byte, len(head)+secondLen))
		copy(full[9:], head)
		if _, err := srv.Write(full[:9+len(head)]); err != nil {
			return
		}
		// request B is sent by the test once the client has given up on A's body (after 5 read timeouts)
		b, err := demoReadRequest(srv)
		if err != nil {
			return
		}
		time.Sleep(T / 4)
		// the rest of A's body: ordinary payload bytes that happen to look like a frame
		if _, err := srv.Write(demoFrame(b, tailOfA)); err != nil {
			return
		}
		srv.Write(demoFrame(b, ownB))
	}()

	start := time.Now()
	if _, errA := c.exec(context.Background(), &writeQueryFrame{statement: "select a"}, nil); errA == nil {
		t.Fatalf("request A unexpectedly got a response")
	}
	// wait until the five read attempts on A's body are over
	time.Sleep(time.Until(start.Add(5*T + T/4)))

	framerB, errB := c.exec(context.Background(), &writeQueryFrame{statement: "select b"}, nil)
	if errB != nil {
		t.Logf("request B failed (fine: the connection was closed): %v", errB)
		return
	}
	if !bytes.Equal(framerB.buf, ownB) {
		t.Fatalf("request B was handed a response that is not its own:\n got  %q\n want %q", framerB.buf, ownB)
	}
}
