//go:build verif_demo

// Demonstration (plain Go, no scheduler) of the C07 defect fixed by the "fix: stop writing
// after a failed write" commit: copy into /repo as conn_verif_demo_test.go and run
//   go test -tags verif_demo -run TestVerifTornFrame .
// Before the fix the second frame is written after the torn first one; after it, it is refused.
package gocql

import (
	"context"
	"errors"
	"testing"
	"time"
)

type verifTornConn struct {
	writes [][]byte
	calls  int
}

func (c *verifTornConn) SetWriteDeadline(time.Time) error { return nil }
func (c *verifTornConn) Write(p []byte) (int, error) {
	c.calls++
	if c.calls == 1 {
		c.writes = append(c.writes, append([]byte(nil), p[:3]...))
		return 3, errors.New("write: connection timed out")
	}
	c.writes = append(c.writes, append([]byte(nil), p...))
	return len(p), nil
}

func TestVerifTornFrame(t *testing.T) {
	fc := &verifTornConn{}
	w := &deadlineContextWriter{w: fc, semaphore: make(chan struct{}, 1), quit: make(chan struct{})}
	if n, err := w.writeContext(context.Background(), []byte("FRAME-A-BYTES")); err == nil || n != 3 {
		t.Fatalf("first write: n=%d err=%v", n, err)
	}
	// a second writer that was already waiting for the semaphore now gets it (exec has not closed the connection yet)
	n, err := w.writeContext(context.Background(), []byte("FRAME-B-BYTES"))
	if err == nil {
		t.Fatalf("a whole frame (%d bytes) was written after a torn frame: wire = %q", n, fc.writes)
	}
}
